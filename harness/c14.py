"""C14 -- the service is total and well-formed on every valid problem.

The real main.pinch_analysis_service is executed symbolically on degenerate-but-legal shapes (single stream, only hot,
only cold, isothermal, zero contribution, duplicate names, utilities that are never needed, numbers wrapped as
value-with-unit objects) with one quantity a z3 real over its whole range, crossed with solver-chosen option vectors.
On every feasible path: no exception escapes (an exception on a feasible path is a counterexample, replayed on the
real code), every reported number is finite, record names are unique with one direct-integration record per zone,
every reported temperature lies inside the envelope of the input temperatures widened by the contributions, and a
second (third) call with the SAME input object -- a dictionary or a validated model, with or without an explicit zone tree --
returns an identical result.
Schema validity and JSON serialisability are checked on the concrete replay of path models (real pydantic).
"""
from __future__ import annotations

import json
import math

from symx import h
from symx.core import SymReal
from symx.runner import Family

from harness import pipeline, service

PROPERTY = "C14"
LEVEL = "model_checking"
FILES = ["OpenPinch/main.py", "OpenPinch/lib/schema.py", "OpenPinch/lib/config.py"] + pipeline.FILES[1:]
FUNCS = ["pinch_analysis_service", "prepare_problem", "Configuration.__init__", "_validate_config_data_completed", "_find_extreme_process_temperatures",
         "get_targets", "_TARGET_HANDLERS", "extract_results", "get_output_graph_data"] + pipeline.FUNCS

OPTION_VECTORS = [
    {},
    {"DO_BALANCED_CC": False},
    {"DO_VERTICAL_GCC": True, "DO_ASSITED_HT": True},
    {"DO_DIRECT_OPERATION_TARGETING": True, "DO_BALANCED_CC": False},
    {"DO_INDIRECT_PROCESS_TARGETING": True, "DO_BALANCED_CC": False},
]

SHAPES = {
    # name: (streams [(zone, name, ts, tt, q-or-cp, dt)], utilities)   "X" marks the swept quantity
    "single_hot": ([("Z1", "H1", "X", 60.0, ("cp", 2), 5.0)], []),
    "single_cold": ([("Z1", "C1", 40.0, "X", ("cp", 3), 5.0)], []),
    "only_hot_two": ([("Z1", "H1", "X", 60.0, ("cp", 2), 5.0), ("Z1", "H2", 150.0, 90.0, ("cp", 1), 10.0)], []),
    "only_cold_two_zones": ([("Z1", "C1", 40.0, "X", ("cp", 2), 5.0), ("Z2", "C2", 30.0, 90.0, ("cp", 1), 5.0)], []),
    "isothermal_pair": ([("Z1", "H1", 100.0, 100.0, ("q", -50.0), 5.0), ("Z1", "C1", 40.0, "X", ("cp", 2), 5.0)], []),
    "zero_contribution": ([("Z1", "H1", "X", 60.0, ("cp", 2), 0.0), ("Z1", "C1", 50.0, 140.0, ("cp", 3), 0.0)], []),
    "duplicate_names": ([("Z1", "S", "X", 60.0, ("cp", 2), 5.0), ("Z1", "S", 50.0, 140.0, ("cp", 3), 5.0)], []),
    "unneeded_utilities": ([("Z1", "H1", "X", 60.0, ("cp", 2), 5.0), ("Z1", "C1", 50.0, 140.0, ("cp", 3), 5.0)],
                           [("HP", "Hot", 300.0), ("MP", "Hot", 200.0), ("XX", "Hot", 20.0), ("CW", "Cold", 15.0), ("YY", "Cold", 400.0)]),
    "value_with_unit": ([("Z1", "H1", "X", 60.0, ("cp", 2), 5.0), ("Z1", "C1", 50.0, 140.0, ("cp", 3), 5.0)], []),
    # isothermal utilities whose supply and target temperatures are spelt differently (plain number vs value-with-unit, 'degC' vs 'C')
    "mixed_spelling_utilities": ([("Z1", "H1", "X", 60.0, ("cp", 2), 5.0), ("Z1", "C1", 50.0, 140.0, ("cp", 3), 5.0)],
                                 [("MP", "Hot", 200.0, "float/vu"), ("CW", "Cold", 15.0, "degC/C")]),
    # explicit zone tree with a unit operation that holds no stream (and two that do)
    "tree_with_empty_operation": ([("Reaction/Reactor", "H1", "X", 60.0, ("cp", 2), 5.0), ("Separation/Column", "C1", 50.0, 140.0, ("cp", 3), 5.0)], [],
                                  {"name": "Site", "type": "Site", "children": [
                                      {"name": "Reaction", "type": "Process Zone", "children": [{"name": "Reactor", "type": "Zone", "children": None},
                                                                                                 {"name": "Quench", "type": "Zone", "children": None}]},
                                      {"name": "Separation", "type": "Process Zone", "children": [{"name": "Column", "type": "Zone", "children": None}]}]}),
}


def build(ctx, case):
    streams_tpl, utils_tpl = SHAPES[case["shape"]][:2]
    x = ctx.real("x", *case.get("xrange", (0, 500)))
    temps, dts = [], []
    streams = []
    wrap = (lambda v, u: {"value": v, "units": u}) if case["shape"] == "value_with_unit" else (lambda v, u: v)
    for zone, name, ts, tt, qq, dt in streams_tpl:
        tsv = x if ts == "X" else ctx.const(ts)
        ttv = x if tt == "X" else ctx.const(tt)
        if qq[0] == "cp":
            ctx.assume(h.disj([tsv - ttv >= 1, ttv - tsv >= 1]))
            q = qq[1] * h.vabs(tsv - ttv)
        else:
            q = ctx.const(qq[1])
        streams.append({"zone": zone, "name": name, "t_supply": wrap(tsv, "degC"), "t_target": wrap(ttv, "degC"), "heat_flow": wrap(q, "kW"),
                        "dt_cont": wrap(ctx.const(dt), "degC"), "htc": wrap(ctx.const(1.0), "kW/m2/K")})
        temps += [tsv, ttv]
        dts.append(dt)
    utils = []
    for name, typ, lvl, *spell in utils_tpl:
        t_sup, t_tar = ctx.const(lvl), ctx.const(lvl)
        if spell and spell[0] == "float/vu":
            t_tar = {"value": ctx.const(lvl), "units": "degC"}
        elif spell and spell[0] == "degC/C":
            t_sup, t_tar = {"value": ctx.const(lvl), "units": "degC"}, {"value": ctx.const(lvl), "units": "C"}
        utils.append({"name": name, "type": typ, "t_supply": t_sup, "t_target": t_tar, "dt_cont": ctx.const(5.0),
                      "htc": ctx.const(1.0), "price": ctx.const(40.0)})
        temps += [ctx.const(lvl)]
        dts.append(5.0)
    # breakpoints equal or well separated (shifted scale), as in the pipeline harness
    pts = []
    for zone, name, ts, tt, qq, dt in streams_tpl:
        for t in (ts, tt):
            if t != "X":
                hot = (ts if ts != "X" else 1e9) > (tt if tt != "X" else -1e9) if "X" not in (ts, tt) else None
                pts += [t - dt, t + dt, t]
    for name, typ, lvl, *_sp in utils_tpl:
        pts += [lvl - 5.0, lvl + 5.0, lvl - 5.1, lvl + 5.1, lvl - 4.9, lvl + 4.9]
    mydt = [dt for zone, name, ts, tt, qq, dt in streams_tpl if "X" in (ts, tt)][0]
    for p in pts:
        for sx in (x - mydt, x + mydt):
            for off in (0.0, 5.0, -5.0, 5.1, -5.1, 4.9, -4.9):
                d = sx - (p + off)
                ctx.assume(h.disj([h.close(d, 0.0, 0.0), d >= pipeline.GAPP, -d >= pipeline.GAPP]))
    spec = {"streams": streams, "utilities": utils}
    if len(SHAPES[case["shape"]]) > 2:
        spec["zone_tree"] = SHAPES[case["shape"]][2]
    return spec, temps, max(dts + [5.0])


def numbers(x, path=""):
    if isinstance(x, dict):
        for k, v in x.items():
            yield from numbers(v, path + "/" + str(k))
    elif isinstance(x, list):
        for i, v in enumerate(x):
            yield from numbers(v, path + f"[{i}]")
    elif isinstance(x, (float, SymReal)) and not isinstance(x, bool):
        yield path, x


def body(ctx, case):
    spec, temps, maxdt = build(ctx, case)
    allowed = case.get("opts") or list(range(len(OPTION_VECTORS)))
    spec["options"] = dict(OPTION_VECTORS[allowed[ctx.choice("opt", len(allowed))]])
    # the request as a plain dictionary or as a validated model (solver's / case's choice): the SAME object is passed again below
    forms = case.get("forms") or ["dict"]
    form = forms[ctx.choice("form", len(forms))] if len(forms) > 1 else forms[0]
    data = service.make_input(ctx, spec, form)
    res = service.call_service(ctx, data)
    view = service.result_view(res)
    # "identical when the call is repeated": same input object, second and third call (an exception here is a counterexample like any other)
    for k in range(case.get("repeats", 1)):
        again = service.result_view(service.call_service(ctx, data))
        ctx.require(service.same(again["targets"], view["targets"], 1e-9) and sorted((again.get("graphs") or {}).keys()) == sorted((view.get("graphs") or {}).keys()),
                    f"the result is identical when the call is repeated with the same input object (call {k + 2}, input as {form})")
    ctx.tag(f"repeated as {form}")
    bad = [p for p, v in numbers(view) if isinstance(v, float) and not math.isfinite(v)]
    ctx.note("nonfinite", len(bad))
    ctx.require(not bad, "every reported number is finite")
    recs = view["targets"]
    names = [r["name"] for r in recs]
    ctx.require(len(set(names)) == len(names), "record names are unique")
    if spec.get("zone_tree"):
        # process zones always; unit operations (with or without streams) when operation-level targeting is requested
        zones = [c["name"] for c in spec["zone_tree"]["children"]]
        if spec["options"].get("DO_DIRECT_OPERATION_TARGETING") or spec["options"].get("DO_INDIRECT_PROCESS_TARGETING"):
            zones += [g["name"] for c in spec["zone_tree"]["children"] for g in (c["children"] or [])]
            ctx.tag("operation-level records checked")
    else:
        zones = sorted({s["zone"] for s in spec["streams"]})
    for zn in ["Site"] + zones:
        ctx.require(names.count(f"{zn}/Direct Integration") == 1, f"exactly one direct-integration record for zone {zn}")
    # temperature envelope
    lo = h.vmin(ctx, temps) - maxdt
    hi = h.vmax(ctx, temps) + maxdt
    conds = []
    for r in recs:
        tp = r.get("temp_pinch") or {}
        for k in ("cold_temp", "hot_temp"):
            v = tp.get(k)
            if v is not None:
                conds.append(h.conj([v >= lo - 1e-6, v <= hi + 1e-6]))
    ctx.require(h.conj(conds), "every reported temperature lies within the envelope of the input temperatures widened by the contributions")
    if ctx.mode == "concrete":
        # real pydantic path: the object returned IS a validated TargetOutput; it must serialise to JSON and back
        txt = res.model_dump_json()
        back = json.loads(txt)
        ctx.require(isinstance(back, dict) and len(back["targets"]) == len(recs), "result validates against the output schema and is JSON-serialisable")
    ctx.tag(f"opt={sorted(spec['options'])}")
    di = [r for r in recs if r["name"] == "Site/Direct Integration"]
    if di:
        ctx.note("Qh", di[0]["Qh"]); ctx.note("Qc", di[0]["Qc"])
    ctx.note("nrec", len(recs))


def cases(tier, seed):
    if tier == "quick":
        return [{"shape": "single_hot", "opts": [0, 1, 4]}, {"shape": "single_cold", "opts": [2, 3]}, {"shape": "isothermal_pair", "opts": [0]},
                {"shape": "duplicate_names", "opts": [3]}, {"shape": "unneeded_utilities", "opts": [1]}, {"shape": "value_with_unit", "opts": [1]}, {"shape": "mixed_spelling_utilities", "opts": [1]},
                {"shape": "tree_with_empty_operation", "opts": [3, 4], "xrange": (170, 174), "forms": ["model"], "repeats": 2}]
    return [{"shape": s} if s != "tree_with_empty_operation" else {"shape": s, "xrange": (146, 200), "forms": ["dict", "model"], "repeats": 2} for s in SHAPES]


FAMILIES = [
    Family(name="shapes", cases=cases, body=body, functions=FUNCS, files=FILES,
           bounds="degenerate-but-legal problems (single hot / single cold / only hot / only cold in two zones / isothermal + normal / zero contributions / duplicate names / explicit zone tree with an empty unit operation / "
                  "five explicit utilities of which three are never needed / value-with-unit numbers) with one stream temperature a z3 real in [0,500], crossed with "
                  "option vectors chosen by the solver (quick: 1-3 per shape, thorough: all 5) (balanced curves on/off, vertical GCC + assisted transfer, unit-operation targeting, indirect process targeting); every call repeated once (tree shape: twice, request given as validated model) with the same input object",
           assumptions=["floats modelled as exact reals", "pydantic models are pass-through stand-ins in symbolic runs; schema validity and JSON round trip are checked on the concrete replay of path models",
                        "redundant-point removal in graph building is an identity stub during symbolic runs", "breakpoints equal or >= 0.25 K apart",
                        "area / heat-pump / turbine / exergy options are excluded (scipy optimisers, CoolProp)"],
           shim_modules=None, snap="micro", split_paths=6, validate_every=3, reach=["repeated as dict", "repeated as model"], case_cap_s=3000),
]
