"""C01 -- direct-integration targets equal the exact cascade (see harness/cascade.py)."""
from harness import cascade

PROPERTY = "C01"
LEVEL = "model_checking"
FAMILIES = cascade.families(("C01",), "C01")
