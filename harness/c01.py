"""C01 -- direct-integration targets equal the exact cascade (see harness/cascade.py)."""
from harness import cascade

PROPERTY = "C01"
LEVEL = "model_checking"
FAMILIES = cascade.families(("C01",), "C01")


# ---------------------------------------------------------------------------------------------------------------------
# family `service`: the same statement through the REAL service (prepare_problem -> get_targets -> report), so that the
# stream-construction path of data_preparation (signed duties of isothermal streams, value unwrapping) is inside the claim.
from symx import h  # noqa: E402
from symx.runner import Family  # noqa: E402
from harness import pipeline, service  # noqa: E402

SERVICE_SHAPES = {
    # (zone, name, ts, tt, duty-or-cp, dt); "X" = swept temperature; ("q", v): signed duty (isothermal: sign gives the kind)
    "latent_hot": [("Z1", "Cond", 100.0, 100.0, ("q", -50.0), 5.0), ("Z1", "C1", 40.0, "X", ("cp", 2.0), 5.0)],
    "latent_cold": [("Z1", "Evap", 90.0, 90.0, ("q", 40.0), 5.0), ("Z1", "H1", "X", 60.0, ("cp", 2.0), 5.0)],
    "two_zones_latent": [("Z1", "Cond", 120.0, 120.0, ("q", -80.0), 10.0), ("Z2", "C1", 40.0, "X", ("cp", 3.0), 5.0), ("Z2", "H1", 150.0, 70.0, ("cp", 1.0), 5.0)],
    "plain_pair": [("Z1", "H1", "X", 60.0, ("cp", 2.0), 5.0), ("Z2", "C1", 50.0, 140.0, ("cp", 3.0), 5.0)],
}


def body_service(ctx, case):
    tpl = SERVICE_SHAPES[case["shape"]]
    x = ctx.real("x", 0, 500)
    streams, model = [], []
    for zone, name, ts, tt, qq, dt in tpl:
        tsv = x if ts == "X" else ctx.const(ts)
        ttv = x if tt == "X" else ctx.const(tt)
        if qq[0] == "cp":
            ctx.assume(h.disj([tsv - ttv >= 1, ttv - tsv >= 1]))
            duty = qq[1] * h.vabs(tsv - ttv)
            hot = bool(tsv > ttv)
            lo, hi = (ttv, tsv) if hot else (tsv, ttv)
            q_in = duty
        else:
            duty = abs(qq[1])
            hot = qq[1] < 0
            lo, hi = (tsv - 0.01, tsv) if hot else (tsv, tsv + 0.01)
            q_in = ctx.const(qq[1])
            duty = ctx.const(duty)
        streams.append({"zone": zone, "name": name, "t_supply": tsv, "t_target": ttv, "heat_flow": q_in, "dt_cont": ctx.const(dt), "htc": ctx.const(1.0)})
        sh = -dt if hot else dt
        model.append({"zone": zone, "hot": hot, "duty": duty, "lo": lo + sh, "hi": hi + sh})
    # breakpoints equal or well separated
    bps = [b for m in model for b in (m["lo"], m["hi"])]
    conds = []
    for a in range(len(bps)):
        for b in range(a + 1, len(bps)):
            d = bps[a] - bps[b]
            c = h.disj([h.close(d, 0.0, 0.0), d >= pipeline.GAPP, -d >= pipeline.GAPP])
            if not isinstance(c, bool):
                conds.append(c)
    for b in bps:     # and away from the default-utility bands anchored on the other bounds
        for b2 in bps:
            for off in (-0.1, 0.1, 10.0, -10.0, 9.9, -9.9, 10.1, -10.1):
                d = b - (b2 + off)
                c = h.disj([h.close(d, 0.0, 0.0), d >= pipeline.GAPP, -d >= pipeline.GAPP])
                if not isinstance(c, bool):
                    conds.append(c)
    ctx.assume(h.conj(conds))
    res = service.call_service(ctx, service.make_input(ctx, {"streams": streams, "utilities": [], "options": {"DO_BALANCED_CC": False}}, "dict"), project_name="Site")
    recs = {r["name"]: r for r in service.result_view(res)["targets"]}
    zones = sorted({m["zone"] for m in model})
    for zn in zones + ["Site"]:
        sts = [m for m in model if zn == "Site" or m["zone"] == zn]
        r = recs.get(f"{zn}/Direct Integration")
        ctx.require(r is not None, f"direct-integration record for {zn} present")
        if r is None:
            continue
        totH = sum((m["duty"] for m in sts if m["hot"]), ctx.const(0.0))
        totC = sum((m["duty"] for m in sts if not m["hot"]), ctx.const(0.0))
        tol = 1e-6 * (totH + totC)

        def above(m, b):
            part = ctx.ite(b <= m["lo"], m["hi"] - m["lo"], ctx.ite(b >= m["hi"], 0.0, m["hi"] - b))
            return (m["duty"] / (m["hi"] - m["lo"])) * part if not m.get("cp") else m["cp"] * part
        Ds = []
        for b in [x for m in sts for x in (m["lo"], m["hi"])]:
            Ds.append(sum((above(m, b) for m in sts if not m["hot"]), ctx.const(0.0)) - sum((above(m, b) for m in sts if m["hot"]), ctx.const(0.0)))
        Qh, Qc, Qr = r["Qh"], r["Qc"], r["Qr"]
        ctx.require(h.conj([Qh >= -tol] + [Qh >= D - tol for D in Ds] + [h.disj([h.close(Qh, 0.0, tol)] + [h.close(Qh, D, tol) for D in Ds])]),
                    f"C01 service {zn}: Qh equals the largest net heat deficit above any shifted temperature (or zero)")
        ctx.require(h.conj([h.close(Qc, Qh - totC + totH, tol), h.close(Qr, totH - Qc, tol)]), f"C01 service {zn}: Qc and Qr follow from Qh and the stream duties")
    ctx.tag("service targets compared")
    ctx.note("Qh_site", recs["Site/Direct Integration"]["Qh"])


def _service_cases(tier, seed):
    shapes = ["latent_hot", "plain_pair"] if tier == "quick" else list(SERVICE_SHAPES)
    return [{"shape": s} for s in shapes]


FAMILIES.append(Family(
    name="service", cases=_service_cases, body=body_service,
    functions=["pinch_analysis_service", "prepare_problem", "_create_process_stream", "get_value", "Stream.__init__"] + cascade.FUNCS,
    files=cascade.FILES + ["OpenPinch/main.py", "OpenPinch/analysis/data_preparation.py", "OpenPinch/analysis/direct_integration_entry.py"],
    bounds="the real service on 2-3 stream problems (isothermal hot stream entered with negative duty, isothermal cold stream, plain pair in two zones) with one stream temperature a z3 real in [0,500]; "
           "the duty (rational in the swept temperature only through CP x span with concrete CP) keeps the oracle linear",
    assumptions=["pydantic stand-ins and identity curve cleaning during symbolic runs", "breakpoints equal or >= 0.25 K apart", "floats modelled as exact reals"],
    shim_modules=None, snap="micro", split_paths=6, validate_every=4, reach=["service targets compared"], case_cap_s=3000))
