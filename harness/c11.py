"""C11 -- analysis is a pure function of its input.

Induction step instead of history enumeration: *state* = every module-level data global, every function's
__defaults__/__kwdefaults__ and every plain class attribute of the OpenPinch package (deep structural snapshot);
*step* = one call of the real main.pinch_analysis_service on a problem with a symbolic quantity (given as a
dictionary and as a validated model that is reused).  Discharged on every path: state after = state before,
the caller's input object after = before, and -- explicit 3-call history A, B, A on one path with the same input
object -- the third result equals the first, the first result object is not altered by later calls, and every
result's graph sets are exactly its own records.
"""
from __future__ import annotations

import sys
import types

from symx import h
from symx.core import SymBool, SymReal, p_key
from symx.runner import Family

from harness import pipeline, service

PROPERTY = "C11"
LEVEL = "model_checking"
FILES = ["OpenPinch/main.py", "OpenPinch/analysis/graph_data.py", "OpenPinch/analysis/data_preparation.py", "OpenPinch/analysis/problem_table_analysis.py"] + pipeline.FILES[1:6]
FUNCS = ["pinch_analysis_service", "prepare_problem", "get_targets", "extract_results", "get_output_graph_data"] + pipeline.FUNCS


def freeze(x, depth=0):
    if depth > 6:
        return "<deep>"
    if isinstance(x, SymReal):
        return ("sym", p_key(x.n), p_key(x.d))
    if isinstance(x, SymBool):
        return ("symbool", str(x.t))
    if isinstance(x, (str, int, float, bool, type(None), bytes)):
        return x if x == x else "nan"
    if isinstance(x, dict):
        return ("dict", tuple(sorted(((repr(k), freeze(v, depth + 1)) for k, v in x.items()), key=lambda kv: kv[0])))
    if isinstance(x, (list, tuple)):
        return (type(x).__name__, tuple(freeze(v, depth + 1) for v in x))
    if isinstance(x, (set, frozenset)):
        return ("set", tuple(sorted(repr(freeze(v, depth + 1)) for v in x)))
    if isinstance(x, (types.FunctionType, types.BuiltinFunctionType, types.ModuleType, type, property, staticmethod, classmethod)):
        return "<code>"
    d = getattr(x, "__dict__", None)
    if isinstance(d, dict) and type(x).__module__.startswith("OpenPinch"):
        return (type(x).__name__, freeze(d, depth + 1))
    return "<obj:%s>" % type(x).__name__


def package_state():
    st = {}
    for mname, mod in list(sys.modules.items()):
        if not (mname == "OpenPinch" or mname.startswith("OpenPinch.")) or mod is None:
            continue
        for name, val in list(vars(mod).items()):
            if name.startswith("__"):
                continue
            key = f"{mname}.{name}"
            if isinstance(val, types.FunctionType):
                if val.__module__ == mname:
                    target = getattr(val, "__wrapped__", val)
                    st[key + ".__defaults__"] = freeze(target.__defaults__)
                    st[key + ".__kwdefaults__"] = freeze(target.__kwdefaults__)
            elif isinstance(val, type):
                if val.__module__ == mname:
                    for an, av in list(vars(val).items()):
                        if an.startswith("__"):
                            continue
                        if isinstance(av, types.FunctionType):
                            st[f"{key}.{an}.__defaults__"] = freeze(av.__defaults__)
                        elif not isinstance(av, (property, staticmethod, classmethod, type)) and not callable(av):
                            st[f"{key}.{an}"] = freeze(av)
            elif isinstance(val, (dict, list, set, tuple, int, float, str, bool, type(None))):
                if name in ("np", "math"):
                    continue
                st[key] = freeze(val)
    return st


def diff_state(a, b):
    return sorted(k for k in set(a) | set(b) if a.get(k) != b.get(k))


B_PROBLEM = {"streams": [{"zone": "ZB", "name": "H9", "t_supply": 180.0, "t_target": 80.0, "heat_flow": 300.0, "dt_cont": 5.0, "htc": 1.0},
                         {"zone": "ZB", "name": "C9", "t_supply": 40.0, "t_target": 150.0, "heat_flow": 330.0, "dt_cont": 5.0, "htc": 1.0}],
             "utilities": [], "options": {}}


# problem B names a non-default value for every option that does not switch on an optional analysis (those stay at their defaults):
# an option that leaked into class-level or module-level state would show in the snapshot and in the third call
B_OPTIONS = {"REFRIGERANTS": "R134a, ammonia", "DT_CONT": 7, "DT_PHASE_CHANGE": 0.2, "HTC": 2.0, "T_ENV": 20, "DT_ENV_CONT": 8, "P_ENV": 100, "DECIMAL_PLACES": 3,
             "DO_BALANCED_CC": False, "HP_LOAD_FRACTION": 0.5, "PRICE_RATIO_ELE_TO_FUEL": 2.0, "MAX_HP_MULTISTART": 3, "N_COND": 2, "N_EVAP": 1,
             "ETA_COMP": 0.6, "ETA_EXP": 0.6, "ETA_HP_CARNOT": 0.4, "ETA_HE_CARNOT": 0.4, "DTMIN_HP": 1.0, "DT_HP_IHX": 1.0, "UTILITY_PRICE": 55,
             "ANNUAL_OP_TIME": 8000, "FIXED_COST": 100, "VARIABLE_COST": 9000, "COST_EXP": 0.7, "DISCOUNT_RATE": 0.05, "SERV_LIFE": 15}


def problem_A(ctx, case):
    sw = case["sweep"]
    ts = ctx.real("x", 0, 500) if sw == "ts" else ctx.const(200.0)
    q = ctx.real("x", 1, 1e4) if sw == "q" else None
    zone = case.get("zoneA", "Z1")
    s0 = {"zone": zone, "name": "H1", "t_supply": ts, "t_target": ctx.const(100.0), "dt_cont": ctx.const(5.0), "htc": ctx.const(1.0)}
    if sw == "ts":
        ctx.assume(ts - 100.0 >= 1)
        s0["heat_flow"] = 2 * (ts - 100.0)
    else:
        s0["heat_flow"] = q
    s1 = {"zone": case.get("zoneA2", zone), "name": "C1", "t_supply": ctx.const(60.0), "t_target": ctx.const(160.0), "heat_flow": ctx.const(300.0),
          "dt_cont": ctx.const(5.0), "htc": ctx.const(1.0)}
    utils = []
    if case.get("utils"):
        utils = [{"name": "HP", "type": "Hot", "t_supply": ctx.const(250.0), "t_target": ctx.const(250.0), "dt_cont": ctx.const(5.0), "htc": ctx.const(1.0), "price": ctx.const(40.0)},
                 {"name": "CW", "type": "Cold", "t_supply": ctx.const(20.0), "t_target": ctx.const(20.0), "dt_cont": ctx.const(5.0), "htc": ctx.const(1.0), "price": ctx.const(10.0)}]
    spec = {"streams": [s0, s1], "utilities": utils, "options": dict(case.get("options") or {})}
    if case.get("tree"):
        # explicit zone tree with generic types; the second stream is labelled with the ROOT zone's own name
        s1["zone"] = "Plant"
        spec["zone_tree"] = {"name": "Plant", "type": "Zone", "children": [{"name": zone, "type": "Zone", "children": None}, {"name": "Spare", "type": "Zone", "children": None}]}
    return spec


def separation(ctx, spec):
    """Breakpoints of problem A well separated (same GAPP assumption as the pipeline harness)."""
    x = spec["streams"][0]["t_supply"]
    if isinstance(x, SymReal) and not x.is_const():
        for b in (100.0, 60.0 + 10, 160.0 + 10, 60.0, 160.0, 245.0, 25.0):
            d = (x - 5.0) - (b - 5.0)
            ctx.assume(h.disj([h.close(d, 0.0, 0.0), d >= pipeline.GAPP, -d >= pipeline.GAPP]))
            d = (x - 5.0) - (b + 5.0 - 5.0) + 0
        for b in (65.0, 165.0, 95.0, 245.0, 244.9, 25.0, 25.1, 170.0, 169.9, 90.0, 90.1):
            d = (x - 5.0) - b
            ctx.assume(h.disj([h.close(d, 0.0, 0.0), d >= pipeline.GAPP, -d >= pipeline.GAPP]))


def body(ctx, case):
    form = case["form"]
    specA = problem_A(ctx, case)
    separation(ctx, specA)
    dataA = service.make_input(ctx, specA, form)
    zb = case.get("zoneB", "ZB")
    specB = {"streams": [dict(s, zone=zb, **{k: ctx.const(v) for k, v in s.items() if isinstance(v, float)}) for s in B_PROBLEM["streams"]],
             "utilities": [], "options": dict(B_OPTIONS) if case.get("options_B") else {}}
    dataB = service.make_input(ctx, specB, "dict")
    in_before = freeze(service.plain(dataA))
    st0 = package_state()
    r1 = service.call_service(ctx, dataA)
    st1 = package_state()
    changed = diff_state(st0, st1)
    ctx.require(not changed, "no module-level state of the library differs after a call")
    in_after = freeze(service.plain(dataA))
    ctx.require(in_before == in_after, "the caller's input object is left unchanged by the call")
    snap1 = freeze(service.result_view(r1))
    keys1, recs1 = service.graph_keys(r1), [r["name"] for r in service.record_list(r1)]
    ctx.require(keys1 == sorted(recs1), "graph entries of the first result are exactly its own records")
    r2 = service.call_service(ctx, dataB)
    keys2, recs2 = service.graph_keys(r2), [r["name"] for r in service.record_list(r2)]
    ctx.require(keys2 == sorted(recs2), "graph entries of a later result are exactly its own records")
    changed = diff_state(st0, package_state())
    ctx.require(not changed, "no module-level state of the library differs after a call with other options")
    r3 = service.call_service(ctx, dataA)
    ctx.require(freeze(service.result_view(r1)) == snap1, "a result returned earlier is not altered by later calls")
    ctx.require(service.same(service.result_view(r3), service.result_view(r1), 1e-9), "running the same input object again after another analysis gives the same result")
    st3 = package_state()
    changed = diff_state(st0, st3)
    ctx.require(not changed, "no module-level state differs after the call history")
    ctx.tag(f"form={form}")
    recs = {r["name"]: r for r in service.record_list(r1)}
    if "Site/Direct Integration" in recs:
        ctx.note("Qh", recs["Site/Direct Integration"]["Qh"]); ctx.note("Qc", recs["Site/Direct Integration"]["Qc"])


def cases(tier, seed):
    out = []
    if tier == "quick":
        out.append({"sweep": "ts", "form": "model", "zoneA": "Z1", "zoneB": "ZB", "options_B": True})
        out.append({"sweep": "ts", "form": "dict", "zoneA": "Z1", "zoneB": "Z1", "utils": True})
        out.append({"sweep": "ts", "form": "model", "zoneA": "Z1", "zoneB": "ZB", "tree": True})
    else:
        out.append({"sweep": "ts", "form": "model", "zoneA": "Z1", "zoneB": "ZB", "tree": True})
        out.append({"sweep": "ts", "form": "dict", "zoneA": "Z1", "zoneB": "Z1", "tree": True})
        for form in ("model", "dict"):
            for zoneB in ("ZB", "Z1"):
                out.append({"sweep": "ts", "form": form, "zoneA": "Z1", "zoneB": zoneB, "options_B": zoneB == "ZB"})
                out.append({"sweep": "ts", "form": form, "zoneA": "Z1", "zoneA2": "Z2", "zoneB": zoneB, "utils": True})
    return out


FAMILIES = [
    Family(name="service_step", cases=cases, body=body, functions=FUNCS, files=FILES,
           bounds="problem A: two streams (one or two zones, optionally two explicit utilities) with one supply temperature a z3 real in [101,500]; problem B concrete, its zone "
                  "name equal to or different from A's, with default options or with a non-default value for every option that does not switch on an optional analysis; input given as dictionary and as a validated model object that is reused; call history A, B, A on every path",
           assumptions=["floats modelled as exact reals", "pydantic TargetInput/TargetOutput/UtilitySchema are pass-through stand-ins during symbolic runs (real pydantic in the concrete replays)",
                        "redundant-point removal in graph building is an identity stub during symbolic runs",
                        "breakpoints equal or >= 0.25 K apart", "state = data globals, function defaults and plain class attributes of all loaded OpenPinch modules"],
           shim_modules=None, snap="micro", split_paths=6, validate_every=4, reach=["form=model", "form=dict"], case_cap_s=3000),
]
