"""C07 -- pocket-free GCC is the greatest monotone curve under the GCC.

unit: get_additional_GCCs -> get_GCC_without_pockets, _remove_pockets_on_one_side_of_the_pinch,
_pocket_exit_index, ProblemTable.pinch_idx, ProblemTable.insert_temperature_interval (real one),
linear_interpolation, get_GCC_needing_utility, get_seperated_gcc_heat_load_profiles.

Input: an arbitrary GCC given as a constant-slope table -- n rows, temperature gaps symbolic, per-interval
slope dH/dT concrete, ALL sign vectors enumerated, offset symbolic with min H = 0 (the solver places the
pinch/pinches).  Oracle: running minimum towards the far end of each side, checked at every output row, at
every mid-point between output rows (a missing closing breakpoint shows there) and for the load profiles.
"""
from __future__ import annotations

import itertools

from symx import h
from symx.runner import Family

PROPERTY = "C07"
LEVEL = "model_checking"
EQ = 1e-9
SEP = 1e-3     # distinct H values (and therefore closing temperatures vs rows) are >= SEP apart: tolerance band excluded

FILES = ["OpenPinch/analysis/gcc_manipulation.py", "OpenPinch/classes/problem_table.py", "OpenPinch/utils/miscellaneous.py"]
FUNCS = ["get_additional_GCCs", "get_GCC_without_pockets", "_remove_pockets_on_one_side_of_the_pinch", "_pocket_exit_index",
         "get_GCC_needing_utility", "get_seperated_gcc_heat_load_profiles", "ProblemTable.pinch_idx",
         "ProblemTable.insert_temperature_interval (and helpers)", "linear_interpolation", "delta_with_zero_at_start", "delta_vals"]


def build_gcc(ctx, slopes, sep=SEP):
    n = len(slopes) + 1
    T0 = ctx.real("T0", 0, 500)
    H0 = ctx.real("H0", 0, 1e4)
    gaps = [ctx.real(f"g{i}", 1e-2, 100) for i in range(n - 1)]
    Ts, Hs = [T0], [H0]
    for i in range(n - 1):
        Ts.append(Ts[-1] - gaps[i])
        Hs.append(Hs[-1] - slopes[i] * gaps[i])
    ctx.assume(h.conj(x >= 0 for x in Hs))
    ctx.assume(h.disj(h.close(x, 0.0, 0.0) for x in Hs))
    for i in range(n):
        for j in range(i + 1, n):
            d = Hs[i] - Hs[j]
            ctx.assume(h.disj([h.close(d, 0.0, 0.0), d >= sep, -d >= sep]))
    return Ts, Hs


def curve_at(Tin, Hin, slopes, x, m, side):
    """Relation 'm == min of the input polyline over [x, top]' (side=+1) or over [bottom, x] (side=-1),
    written without forking: m <= every candidate in range, and m equals one of them."""
    n = len(Tin)
    le, eq = [], []
    # the curve value at x itself (x lies in exactly one closed segment, or beyond an end)
    le.append(h.implies(x >= Tin[0], m <= Hin[0] + EQ)); eq.append(h.conj([x >= Tin[0], h.close(m, Hin[0], EQ)]))
    le.append(h.implies(x <= Tin[-1], m <= Hin[-1] + EQ)); eq.append(h.conj([x <= Tin[-1], h.close(m, Hin[-1], EQ)]))
    for k in range(n - 1):
        inside = h.conj([x <= Tin[k], x >= Tin[k + 1]])
        val = Hin[k + 1] + slopes[k] * (x - Tin[k + 1])
        le.append(h.implies(inside, m <= val + EQ))
        eq.append(h.conj([inside, h.close(m, val, EQ)]))
    for j in range(n):
        g = (Tin[j] >= x) if side > 0 else (Tin[j] <= x)
        le.append(h.implies(g, m <= Hin[j] + EQ))
        eq.append(h.conj([g, h.close(m, Hin[j], EQ)]))
    return h.conj([h.conj(le), h.disj(eq)])


def body(ctx, case):
    from OpenPinch.analysis import gcc_manipulation as gcc
    from OpenPinch.classes.problem_table import ProblemTable
    from OpenPinch.lib.enums import PT
    slopes = case["slopes"]
    global EQ
    # a closing temperature within 1e-6 K of an existing row cannot become a row of its own (C08: no duplicates within
    # tolerance); the curve may then deviate by at most |slope| x 2e-6 in enthalpy.  Exact (1e-9) for unit slopes.
    EQ = 1e-9 if max(abs(x) for x in slopes) <= 128 else 1e-9 + max(abs(x) for x in slopes) * 2e-6
    Tin, Hin = build_gcc(ctx, slopes, case.get("sep", SEP))
    n = len(Tin)
    pt = ProblemTable({PT.T.value: list(Tin), PT.H_NET.value: list(Hin)})
    gcc.get_additional_GCCs(pt)
    T = h.col(pt, PT.T.value)
    H = h.col(pt, PT.H_NET.value)
    NP = h.col(pt, PT.H_NET_NP.value)
    A = h.col(pt, PT.H_NET_A.value)
    HOT = h.col(pt, PT.H_NET_HOT.value)
    COLD = h.col(pt, PT.H_NET_COLD.value)
    N = len(T)
    if N > n:
        ctx.tag("breakpoint inserted")
    if N > n + 1:
        ctx.tag(">=2 breakpoints inserted")
    # pinch temperatures by definition on the input polyline (zeros are exact zeros by the SEP assumption)
    # T_hp = hottest zero row, T_cp = coldest zero row -- expressed as guards, no forking
    def above_hot(x):   # x at or above the hottest zero
        return h.conj(h.implies(h.close(Hin[j], 0.0, 0.0), x >= Tin[j]) for j in range(n))
    def below_cold(x):
        return h.conj(h.implies(h.close(Hin[j], 0.0, 0.0), x <= Tin[j]) for j in range(n))
    # 1. the GCC itself is untouched as a function of temperature; rows strictly descending
    ctx.require(h.conj(T[k] - T[k + 1] > 1e-6 for k in range(N - 1)), "rows strictly descending")
    ctx.require(h.conj(curve_point(Tin, Hin, slopes, T[k], H[k]) for k in range(N)), "GCC unchanged by breakpoint insertion")
    # 2. NP is the running minimum at every row and every mid-point
    conds = []
    pts = [(T[k], NP[k]) for k in range(N)] + [((T[k] + T[k + 1]) * 0.5, (NP[k] + NP[k + 1]) * 0.5) for k in range(N - 1)]
    for x, m in pts:
        ah, bc = above_hot(x), below_cold(x)
        conds.append(h.implies(ah, curve_at(Tin, Hin, slopes, x, m, +1)))
        conds.append(h.implies(bc, curve_at(Tin, Hin, slopes, x, m, -1)))
        conds.append(h.implies(h.conj([h.neg(ah), h.neg(bc)]), h.close(m, 0.0, EQ)))
    ctx.require(h.conj(conds), "pocket-free GCC equals the running minimum at every row and mid-point (breakpoint where a pocket closes)")
    ctx.require(h.conj([h.close(NP[0], Hin[0], EQ), h.close(NP[-1], Hin[-1], EQ)]), "Qh and Qc kept at the ends")
    ctx.require(h.conj(h.close(A[k], NP[k], EQ) for k in range(N)), "actual GCC column equals the pocket-free GCC")
    # 3. load profiles: cold (heating) profile = NP above the hot pinch, 0 below; hot (cooling) profile = -NP below, 0 above
    conds = []
    for k in range(N):
        ah, bc = above_hot(T[k]), below_cold(T[k])
        conds.append(h.implies(ah, h.conj([h.close(COLD[k], NP[k], EQ)])))
        conds.append(h.implies(h.neg(ah), h.close(COLD[k], 0.0, EQ)))
        conds.append(h.implies(bc, h.close(HOT[k], -NP[k], EQ)))
        conds.append(h.implies(h.neg(bc), h.close(HOT[k], 0.0, EQ)))
    for k in range(N - 1):
        conds.append(COLD[k] >= COLD[k + 1] - EQ)
        conds.append(HOT[k] >= HOT[k + 1] - EQ)
    conds.append(h.close(COLD[0], Hin[0], EQ))
    conds.append(h.close(HOT[-1], -Hin[-1], EQ))
    ctx.require(h.conj(conds), "net load profiles monotone, zero at the pinch side, ending at Qh / Qc")
    ctx.note("rows_out", N)
    ctx.note("NP0", NP[0])
    ctx.note("NPsum", sum(NP[1:], NP[0]))


def curve_point(Tin, Hin, slopes, x, v):
    """v == H_in(x) (relation, no forking)."""
    n = len(Tin)
    alts = [h.conj([x >= Tin[0], h.close(v, Hin[0], EQ)]), h.conj([x <= Tin[-1], h.close(v, Hin[-1], EQ)])]
    for k in range(n - 1):
        alts.append(h.conj([x <= Tin[k], x >= Tin[k + 1], h.close(v, Hin[k + 1] + slopes[k] * (x - Tin[k + 1]), EQ)]))
    return h.disj(alts)


def cases(tier, seed):
    out = []
    if tier == "quick":
        for n in (2, 3, 4, 5):
            for sv in itertools.product((-1, 0, 1), repeat=n - 1):
                out.append({"slopes": list(sv)})
        # six and seven rows: the shapes with at least two sign changes on a side (two pockets)
        for sv in itertools.product((-1, 1), repeat=5):
            out.append({"slopes": list(sv)})
        out.append({"slopes": [1, -1, 1, -1, 1, 1]})
        out.append({"slopes": [-1, -1, 1, -1, 1, -1]})
        out += steep_cases(3) + steep_cases(4)
    else:
        for n in (2, 3, 4, 5, 6):
            for sv in itertools.product((-1, 0, 1), repeat=n - 1):
                out.append({"slopes": list(sv)})
        for sv in itertools.product((-1, 1), repeat=6):
            out.append({"slopes": list(sv)})
        for sv in itertools.product((-1, 1), repeat=7):
            out.append({"slopes": list(sv)})
        # steep / shallow pocket segments: "close in T but not in H" and the converse
        from fractions import Fraction
        for sv in itertools.product((-1, 1), repeat=4):
            for mag in (Fraction(1, 128), 128):
                out.append({"slopes": [float(s * mag) if i % 2 else s for i, s in enumerate(sv)], "sep": 1e-3})
        out += steep_cases(4) + steep_cases(5)
    return out


def steep_cases(n):
    """One segment 2^21 times steeper than the rest: a pocket then closes within 1e-6 K of an existing row (no new row is
    inserted) although the enthalpies differ by >= sep."""
    out = []
    for sv in itertools.product((-1, 1), repeat=n - 1):
        for pos in range(n - 1):
            sl = [float(s * 2 ** 21) if i == pos else s for i, s in enumerate(sv)]
            out.append({"slopes": sl, "steep": pos})
        for p1 in range(n - 1):
            for p2 in range(p1 + 1, n - 1):
                if sv[p1] == sv[p2]:
                    continue
                sl = [float(s * 2 ** 21) if i in (p1, p2) else s for i, s in enumerate(sv)]
                out.append({"slopes": sl, "steep": [p1, p2]})
    return out


FAMILIES = [
    Family(
        name="pockets", cases=cases, body=body, functions=FUNCS, files=FILES,
        bounds="GCC tables of 2-6 rows with every slope-sign vector in {-1,0,+1}^(n-1) (quick: complete to 5 rows plus all "
               "+/-1 vectors of 6 rows; thorough: complete to 6 rows, all +/-1 vectors of 7 and 8 rows, slope magnitudes 1/128 and 128 on 5 rows); "
               "temperature gaps in [0.01,100] K, top temperature and enthalpy offset symbolic; min H = 0 with the solver choosing the pinch row(s)",
        assumptions=["floats modelled as exact reals",
                     "per-interval GCC slopes are concrete (unit magnitude unless stated); temperature gaps are symbolic",
                     "distinct enthalpy values of rows differ by >= 1e-3 (tolerance band 0<|dH|<1e-3 outside the claim)"],
        shim_modules=["OpenPinch.classes.problem_table", "OpenPinch.analysis.gcc_manipulation", "OpenPinch.utils.miscellaneous"],
        reach=["breakpoint inserted", ">=2 breakpoints inserted"], validate_every=2,
    ),
]
