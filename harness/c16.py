"""C16 -- all input channels describe the same problem identically.

families (all solver-driven through the symx engine):
  channels        the real service on ONE symbolic problem given as dictionary, as validated model and with every number
                  wrapped as a value-with-unit object, on one path: identical records.  On the concrete replay of path
                  models the same problem is additionally written to a JSON file and to a CSV bundle (directory and pair
                  of files) and run through PinchProblem: identical records (file parsers are compiled code -- these are
                  path-directed witnesses, not a for-all).
  get_value       scalar / dict / ValueWithUnit unwrapping with a symbolic magnitude.
  wrapper         PinchProblem under every solver-chosen sequence of load / target / export calls with the service
                  replaced by a recording stub: target() returns the result of the problem currently loaded, the cached
                  object on repetition, and export uses it.
  sheet_names     _unique_sheet_name / _sanitize_sheet_name: names = concrete prefix (0..31 chars, around the 31-char
                  cut) + symbolic characters from an alphabet of forbidden / special / ordinary characters
                  (finite-domain symbolic); unique, 1..31 chars, none of : \\ / ? * [ ].
Workbook channel: on the concrete replay of path models the problem is also written as a workbook with the template sheets
                  ('Stream Data', 'Utility Data'; numbers as float cells and, for whole numbers, as integer cells; units spelled
                  degC and with the degree sign) and loaded through PinchProblem -- a path-directed witness like JSON/CSV (the
                  openpyxl parser itself is compiled/binary-format code and cannot be encoded).
"""
from __future__ import annotations

import json
import os
import tempfile

from symx import h
from symx.core import SymReal
from symx.runner import Family

from harness import pipeline, service

PROPERTY = "C16"
LEVEL = "model_checking"
FILES = ["OpenPinch/classes/pinch_problem.py", "OpenPinch/utils/csv_to_json.py", "OpenPinch/utils/export.py", "OpenPinch/utils/miscellaneous.py",
         "OpenPinch/lib/schema.py", "OpenPinch/main.py", "OpenPinch/utils/wkbook_to_json.py"]


# ------------------------------------------------------------------------------------------------ channels
def _spec(ctx, case, wrap):
    x = ctx.real("x", 0, 500)
    ctx.assume(x - 100.0 >= 1)
    for b in (95.0, 65.0, 165.0, 245.0, 244.9, 25.0, 25.1, 170.0, 169.9, 90.0, 90.1, 175.0, 55.0):
        d = (x - 5.0) - b
        ctx.assume(h.disj([h.close(d, 0.0, 0.0), d >= pipeline.GAPP, -d >= pipeline.GAPP]))
    w = (lambda v, u: {"value": v, "units": u}) if wrap else (lambda v, u: v)
    off = float(case.get("offset", 0.0))     # the whole problem moved down the temperature axis (sub-zero, whole-number temperatures)
    streams = [
        {"zone": "Z1", "name": "H1", "t_supply": w(x + off, "degC"), "t_target": w(ctx.const(100.0 + off), "degC"), "heat_flow": w(2 * (x - 100.0), "kW"),
         "dt_cont": w(ctx.const(5.0), "degC"), "htc": w(ctx.const(1.0), "kW/m^2/K")},
        {"zone": case.get("zone2", "Z1"), "name": "C1", "t_supply": w(ctx.const(60.0 + off), "degC"), "t_target": w(ctx.const(160.0 + off), "degC"),
         "heat_flow": w(ctx.const(300.0), "kW"), "dt_cont": w(ctx.const(5.0), "degC"), "htc": w(ctx.const(1.0), "kW/m^2/K")},
    ]
    utils = []
    if case.get("utils"):
        utils = [{"name": "HP", "type": "Hot", "t_supply": w(ctx.const(250.0 + off), "degC"), "t_target": w(ctx.const(250.0 + off), "degC"), "heat_flow": w(ctx.const(0.0), "kW"),
                  "dt_cont": w(ctx.const(5.0), "degC"), "htc": w(ctx.const(1.0), "kW/m^2/K"), "price": w(ctx.const(40.0), "$/MWh")}]
    return {"streams": streams, "utilities": utils, "options": {}}


def _records(res):
    return service.result_view(res)["targets"]


SPELLINGS = ["repr of the float (150.0)", "shortest text: whole numbers without decimal point (150, -40)", "exponent form (1.5e+02)"]


def _cell(v, spell):
    if not isinstance(v, float):
        return str(v)
    if spell == 1 and v == int(v):
        return str(int(v))
    if spell == 2:
        return "%.17e" % v
    return repr(v)


def _write_csv(path, rows, cols, units, spell=0):
    with open(path, "w", encoding="utf-8") as fh:
        fh.write(",".join(cols) + "\n")
        fh.write(",".join(units) + "\n")
        for r in rows:
            fh.write(",".join(_cell(r[c], spell) for c in cols) + "\n")


def _write_workbook(path, spec, deg, htc_unit, ints):
    import pandas as pd

    def cell(v):
        return int(v) if ints and isinstance(v, float) and v == int(v) else v
    scol = ["zone", "name", "t_supply", "t_target", "heat_flow", "dt_cont", "htc"]
    sun = [None, None, deg, deg, "kW", deg, htc_unit]
    ucol = ["name", "type", "t_supply", "t_target", "dt_cont", "price", "htc", "heat_flow"]
    uun = [None, None, deg, deg, deg, "$/MWh", htc_unit, "kW"]
    with pd.ExcelWriter(path, engine="openpyxl") as xw:
        pd.DataFrame([scol, sun] + [[cell(r[c]) for c in scol] for r in spec["streams"]]).to_excel(xw, sheet_name="Stream Data", header=None, index=False)
        pd.DataFrame([ucol, uun] + [[cell(r[c]) for c in ucol] for r in spec["utilities"]]).to_excel(xw, sheet_name="Utility Data", header=None, index=False)


def body_channels(ctx, case):
    plain_spec = _spec(ctx, case, wrap=False)
    r_dict = service.call_service(ctx, service.make_input(ctx, plain_spec, "dict"), project_name="P")
    r_model = service.call_service(ctx, service.make_input(ctx, plain_spec, "model"), project_name="P")
    # second _spec call re-declares the same symbolic variable x (same name => same unknown)
    vu_spec = _spec(ctx, case, wrap=True)
    r_vu = service.call_service(ctx, service.make_input(ctx, vu_spec, "dict"), project_name="P")
    base = _records(r_dict)
    ctx.require(service.same(_records(r_model), base, 1e-9), "validated model gives the same targets as the plain dictionary")
    ctx.require(service.same(_records(r_vu), base, 1e-9), "value-with-unit numbers give the same targets as plain numbers")
    ctx.tag("forms compared")
    if ctx.mode == "concrete":
        from OpenPinch import PinchProblem
        from OpenPinch.lib.schema import TargetInput
        with tempfile.TemporaryDirectory(prefix="c16_") as td:
            # JSON file channel through the wrapper
            jp = os.path.join(td, "P.json")
            with open(jp, "w") as fh:
                json.dump(plain_spec, fh)
            pj = PinchProblem()
            pj.load(jp)
            ctx.require(service.same(_records(pj.target()), base, 1e-9), "JSON file through PinchProblem gives the same targets")
            ctx.require(pj.target() is pj.target(), "PinchProblem.target returns the cached result on repetition")
            # model through the wrapper
            pm = PinchProblem()
            pm.load(TargetInput.model_validate(plain_spec))
            pm._project_name = "P"
            ctx.require(service.same(_records(pm.target()), base, 1e-9), "validated model through PinchProblem gives the same targets")
            # CSV bundle: directory and pair of files, the numbers written in every spelling of SPELLINGS
            for spell in range(len(SPELLINGS)):
                cd = os.path.join(td, f"P{spell}", "P")
                os.makedirs(cd)
                scol = ["zone", "name", "t_supply", "t_target", "heat_flow", "dt_cont", "htc"]
                _write_csv(os.path.join(cd, "streams.csv"), plain_spec["streams"], scol, ["", "", "degC", "degC", "kW", "degC", "kW/m^2/K"], spell)
                ucol = ["name", "type", "t_supply", "t_target", "heat_flow", "dt_cont", "htc", "price"]
                with open(os.path.join(cd, "utilities.csv"), "w") as fh:
                    fh.write(",".join(ucol) + "\n" + ",,degC,degC,kW,degC,kW/m^2/K,$/MWh\n")
                if not plain_spec["utilities"]:
                    pc = PinchProblem()
                    pc.load(cd)
                    ctx.require(service.same(_records(pc.target()), base, 1e-6), f"CSV directory through PinchProblem gives the same targets ({SPELLINGS[spell]})")
                    pt = PinchProblem()
                    pt.load((os.path.join(cd, "streams.csv"), os.path.join(cd, "utilities.csv")))
                    pt._project_name = "P"
                    ctx.require(service.same(_records(pt.target()), base, 1e-6), f"CSV file pair through PinchProblem gives the same targets ({SPELLINGS[spell]})")
            # workbook with the template sheets, read by get_problem_from_excel through the wrapper
            for spell, (deg, what) in enumerate((("degC", "float cells, units degC / kW/m^2/K"), ("\u00b0C", "integer cells for whole numbers, units with the degree sign / kW/m2/K"))):
                xp = os.path.join(td, f"W{spell}", "P.xlsx")
                os.makedirs(os.path.dirname(xp))
                _write_workbook(xp, plain_spec, deg, "kW/m^2/K" if spell == 0 else "kW/m2/K", ints=bool(spell))
                px = PinchProblem()
                px.load(xp)
                ctx.require(service.same(_records(px.target()), base, 1e-6), f"workbook through PinchProblem gives the same targets ({what})")
            ctx.tag("workbook channel compared")
    di = [r for r in base if r["name"] == "P/Direct Integration"]
    if di:
        ctx.note("Qh", di[0]["Qh"]); ctx.note("Qc", di[0]["Qc"])


# ------------------------------------------------------------------------------------------------ get_value
def body_get_value(ctx, case):
    from OpenPinch.lib.schema import ValueWithUnit
    from OpenPinch.utils.miscellaneous import get_value
    v = ctx.real("v", -1e6, 1e6)
    ctx.require(h.close(get_value(v), v, 0.0), "get_value(float) returns the number")
    ctx.require(h.close(get_value({"value": v, "units": "kW"}), v, 0.0), "get_value(dict) returns its value")
    vu = ValueWithUnit.model_construct(value=v, units="kW") if ctx.mode != "concrete" else ValueWithUnit(value=v, units="kW")
    ctx.require(h.close(get_value(vu), v, 0.0), "get_value(ValueWithUnit) returns its value")
    for bad in (3, "3.0", None, [1.0]):
        try:
            get_value(bad)
            ctx.fail(f"get_value accepts {type(bad).__name__}")
        except TypeError:
            pass
    ctx.tag("unwrapped")


# ------------------------------------------------------------------------------------------------ wrapper state machine
OPS = ["loadA", "loadB", "target", "export"]


def body_wrapper(ctx, case):
    from OpenPinch.classes import pinch_problem as pp
    from OpenPinch.lib.schema import TargetInput
    A = TargetInput.model_construct(streams=["A"], utilities=[], options=None, zone_tree=None)
    B = TargetInput.model_construct(streams=["B"], utilities=[], options=None, zone_tree=None)
    calls = []

    def fake_service(data, project_name="Project", is_return_full_results=False):
        calls.append(data)
        res = {"result_of": data.streams[0], "n": len(calls)}
        return (res, "zone-of-" + data.streams[0]) if is_return_full_results else res

    exported = []

    def fake_export(target_response, master_zone, out_dir):
        exported.append((target_response, master_zone))
        return out_dir

    saved = (pp.pinch_analysis_service, pp.export_target_summary_to_excel_with_units)
    pp.pinch_analysis_service, pp.export_target_summary_to_excel_with_units = fake_service, fake_export
    try:
        p = pp.PinchProblem()
        loaded = None
        last = None
        for k in range(case["K"]):
            op = OPS[ctx.choice(f"op{k}", len(OPS))]
            ctx.tag(f"op:{op}")
            if op in ("loadA", "loadB"):
                loaded = A if op == "loadA" else B
                ret = p.load(loaded)
                ctx.require(ret is loaded and p.problem_data is loaded, "load of a TargetInput stores that object")
                last = None
            elif op == "target":
                if loaded is None:
                    try:
                        p.target()
                        ctx.fail("target() without a loaded problem does not raise")
                    except RuntimeError:
                        pass
                    continue
                n_before = len(calls)
                r = p.target()
                ctx.require(r["result_of"] == loaded.streams[0], "target() returns the result of the problem currently loaded")
                if last is not None:
                    ctx.require(r is last and len(calls) == n_before, "repeated target() returns the cached object without re-running")
                last = r
            else:
                if loaded is None:
                    continue
                p.export_to_Excel("/nonexistent-dir")
                ctx.require(exported and exported[-1][0]["result_of"] == loaded.streams[0] and exported[-1][1] == "zone-of-" + loaded.streams[0],
                            "export writes the result of the problem currently loaded")
                last = p.results
    finally:
        pp.pinch_analysis_service, pp.export_target_summary_to_excel_with_units = saved


# ------------------------------------------------------------------------------------------------ sheet names
ALPHABET = ["a", ":", "/", " ", "'", "(", ")", "2", "[", "\\", "?", "*", "]"]
FORBIDDEN = set(":\\/?*[]")


def body_sheets(ctx, case):
    from OpenPinch.utils import export as ex
    L = case["prefix"]
    prefix = ("Zone name that is long enough to reach the cut"[:L]) if L else ""
    c1 = ALPHABET[ctx.choice("c1", len(ALPHABET))]
    c2 = ALPHABET[ctx.choice("c2", len(ALPHABET))]
    name1 = prefix + c1 + c2 + case.get("tail", "")
    second = ctx.choice("second", 3)
    if second == 0:
        name2 = name1
    elif second == 1:
        name2 = prefix + ALPHABET[ctx.choice("c3", len(ALPHABET))] + c2 + case.get("tail", "")
    else:
        name2 = name1[:31] + " (2)"
    names = ([name1, name2, name1, name2] * 4)[:case.get("count", 3)]
    used = set()
    out = [ex._unique_sheet_name(nm, used) for nm in names]
    ctx.require(len(set(out)) == len(out), "sheet names are unique")
    ctx.require(all(1 <= len(o) <= 31 for o in out), "sheet names have 1..31 characters")
    ctx.require(all(not (set(o) & FORBIDDEN) for o in out), "sheet names contain none of : \\ / ? * [ ]")
    ctx.require(used == set(out), "the used-name set holds exactly the names handed out")
    if any(len(nm) > 31 for nm in names):
        ctx.tag("name cut at 31")
    if len(set(n[:31] for n in names)) < len(names):
        ctx.tag("clash resolved by suffix")


def cases_sheets(tier, seed):
    out = [{"prefix": L} for L in ((0, 26, 29, 31) if tier == "quick" else (0, 1, 25, 26, 27, 28, 29, 30, 31, 33))]
    out += [{"prefix": 27, "tail": " - Direct Integration (Real)", "count": 4}]
    out += [{"prefix": 29, "count": 12}, {"prefix": 26, "count": 14}]      # ten and more clashing names: two-digit suffixes
    return out


FAMILIES = [
    Family(name="channels", cases=lambda tier, seed: ([{"utils": False}, {"utils": False, "offset": -160.0}] if tier == "quick"
                                                    else [{"utils": False}, {"utils": True}, {"utils": False, "zone2": "Z2"}, {"utils": False, "offset": -160.0}, {"utils": False, "zone2": "Z2", "offset": -230.0}]),
           body=body_channels, functions=["pinch_analysis_service", "get_value", "PinchProblem.load", "PinchProblem.target", "get_problem_from_csv (concrete replay)", "get_problem_from_excel (concrete replay)"],
           files=FILES, bounds="one problem of two streams (optionally one utility / two zones) with one supply temperature a z3 real in [101,500], given as dictionary, as validated model "
                               "and with value-with-unit numbers on the same path, also moved to sub-zero whole-number temperatures; JSON file, CSV directory, CSV pair (every cell spelling of: "
                               "float repr / whole numbers without decimal point / exponent form), a workbook with the template sheets (float or integer cells, two unit spellings) and the PinchProblem wrapper on the concrete replay of path models",
           assumptions=["pydantic stand-ins and identity curve cleaning during symbolic runs", "file channels (JSON/CSV/workbook) are exercised on concrete path models only (their parsers are compiled code): path-directed witnesses, not a for-all",
                        "breakpoints equal or >= 0.25 K apart"],
           shim_modules=None, snap="micro", split_paths=6, validate_every=2, reach=["forms compared"]),
    Family(name="get_value", cases=lambda tier, seed: [{}], body=body_get_value, functions=["get_value"], files=FILES[3:5],
           bounds="magnitude a z3 real in [-1e6,1e6]; float / dict / ValueWithUnit accepted, int / str / None / list refused", assumptions=[],
           shim_modules=["OpenPinch.utils.miscellaneous"], split_paths=0, reach=["unwrapped"]),
    Family(name="wrapper", cases=lambda tier, seed: ([{"K": 3}, {"K": 4}] if tier == "quick" else [{"K": 4}, {"K": 5}]), body=body_wrapper,
           functions=["PinchProblem.__init__", "PinchProblem.load", "PinchProblem.target", "PinchProblem.export_to_Excel"], files=FILES[:1],
           bounds="every sequence of 3-4 (thorough 4-5) calls chosen by the solver from {load(A), load(B), target, export}; the service and the Excel writer are recording stubs",
           assumptions=["the service is replaced by a stub that returns a token naming its input (the wrapper's own logic is the subject)"],
           shim_modules=["OpenPinch.classes.stream"], split_paths=100, validate_every=5, reach=["op:target", "op:export", "op:loadB"]),
    Family(name="sheet_names", cases=cases_sheets, body=body_sheets, functions=["_unique_sheet_name", "_sanitize_sheet_name"], files=FILES[2:3],
           bounds="3-14 names per workbook (up to 14 clashing ones, so two-digit ' (n)' suffixes occur): concrete prefix of 0..33 characters around the 31-character cut followed by two symbolic characters from a 13-symbol alphabet "
                  "(all seven forbidden characters, space, apostrophe, parentheses, digit, letter); the second name equal to the first, differing in one symbolic character, or equal to the "
                  "first name's own ' (2)' alternative",
           assumptions=["characters are finite-domain symbolic (alphabet of 13), not unbounded strings"], shim_modules=["OpenPinch.classes.stream"],
           split_paths=200, validate_every=10, reach=["name cut at 31", "clash resolved by suffix"]),
]
