"""C18 -- solved heat-pump cycles obey the first and second laws.

unit: SimpleHeatPumpCycle.solve, _get_P_sat_from_T, _compute_state_from_pressure_temperature, _compute_compressor_outlet_state,
_compute_condenser_outlet_state, _compute_state_from_pressure_enthalpy, _save_cycle_state, _get_metrics, COP_h, COP_r,
build_stream_collection, _build_condenser_profile, _build_evaporator_profile -- executed symbolically.

Environment: CoolProp's compiled AbstractState is replaced by `FluidStub`, whose outputs are UNINTERPRETED functions
(h(p,T), s(p,T), h(p,s), T(p,h), s(p,h), p_sat(T), T_sat(p), saturated h/s) constrained ONLY by identities that hold for
every pure fluid (listed in CONTRACT below and in the evidence).  "All refrigerants known to the property library" is
therefore covered as "any fluid satisfying the contract"; the numerical quality of CoolProp itself is outside.  A
counterexample is replayed on the real library with water, n-pentane (a dry fluid: wet compressor discharge at small
superheat), D4 (a heavy siloxane: saturated liquid at the condenser has more enthalpy than the evaporator vapour) and, in the
thorough tier, ammonia at the model's temperatures: only clauses
whose violation does not depend on the fluid's property values can reproduce -- the others would be weak-contract
artefacts and are therefore not asserted.
"""
from __future__ import annotations

import z3

from symx import core, h, uf
from symx.core import SymReal, lift
from symx.runner import Family

PROPERTY = "C18"
LEVEL = "model_checking"
FILES = ["OpenPinch/classes/simple_heat_pump.py"]
FUNCS = ["SimpleHeatPumpCycle.solve", "_get_P_sat_from_T", "_compute_state_from_pressure_temperature", "_compute_compressor_outlet_state",
         "_compute_condenser_outlet_state", "_compute_state_from_pressure_enthalpy", "_save_cycle_state", "_get_metrics", "COP_h", "COP_r",
         "build_stream_collection", "_build_condenser_profile", "_build_evaporator_profile"]

CONTRACT = [
    "p_sat strictly increasing in T; T_sat(p_sat(T)) = T",
    "state functions are functions of the last update() arguments (uninterpreted h(p,T), s(p,T), h(p,s), T(p,h), s(p,h))",
    "consistency: h(p, s(p,T)) = h(p,T);  s(p, h(p,s)) = s;  s(p, h(p,T)) = s(p,T);  T(p, h(p,T)) = T",
    "isentropic compression raises enthalpy: h(p2,s) > h(p1,s) for p2 > p1   (dh = v dp, v > 0)",
    "s(p,h) non-decreasing in h at fixed p   (ds = dh/T)",
    "throttling: s(p1,h) >= s(p2,h) for p1 <= p2   (ds = -v/T dp at fixed h)",
    "h(p,T) non-decreasing in T at fixed p (cp > 0); saturated: h_g(p) > h_f(p); h(p,T) >= h_g(p) for T >= T_sat(p), h(p,T) <= h_f(p) for T <= T_sat(p)",
    "T(p,h) non-decreasing in h at fixed p",
    "two-phase states (h_f <= h <= h_g) are at T_sat(p); h >= h_g implies T >= T_sat, h <= h_f implies T <= T_sat",
    "DOMAIN ASSUMPTION (sub-critical cycle away from the critical region; DROPPED in the `heavy` cases, replayed on D4): h_f(p_a) < h_g(p_b) for all pressures of the cycle",
    "all enthalpies in J/kg within [-1e7, 1e7], pressures in (0, 1e9)",
]


class FluidStub:
    """Stand-in for CoolProp.AbstractState in symbolic runs."""

    def __init__(self, ctx, domain=True, prefix=""):
        self.ctx = ctx
        self.prefix = prefix  # a second fluid on the same path gets its own family of state functions
        self.domain = domain  # assume h_f(p_a) < h_g(p_b) for all pressures of the cycle (dropped in the `heavy` cases)
        self._p = self._T = self._h = self._s = None
        self.states = []      # (p, T, h, s) of every state computed, for pairwise axiom instantiation

    # --- critical point far away: the cycle is sub-critical
    def keyed_output(self, key):
        import CoolProp
        return {CoolProp.iP_critical: 1e12, CoolProp.iT_critical: 1e6, CoolProp.irhomass_critical: 1.0}[key]

    def _assume(self, c):
        core.EX.assume(c)

    def _f(self, name, *args):
        v = uf.app(self.prefix + name, *args)
        return v

    def update(self, pair, a, b):
        import CoolProp as CP
        a, b = lift(a), lift(b)
        A = self._assume
        if pair == CP.QT_INPUTS:
            Q, T = a, b
            p = self._f("psat", T)
            A(z3.And(p.t > 0, p.t < 1e9))        # sub-critical: far below the (moved) critical pressure
            A(self._f("Tsat", p).t == T.t)
            hh = self._f("hg", p) if bool(Q == 1) else self._f("hf", p)
            ss = self._f("sg", p) if bool(Q == 1) else self._f("sf", p)
            self._sat_axioms(p)
        elif pair == CP.PQ_INPUTS:
            p, Q = a, b
            T = self._f("Tsat", p)
            hh = self._f("hg", p) if bool(Q == 1) else self._f("hf", p)
            ss = self._f("sg", p) if bool(Q == 1) else self._f("sf", p)
            self._sat_axioms(p)
        elif pair == CP.PT_INPUTS:
            p, T = a, b
            hh = self._f("h_pT", p, T)
            ss = self._f("s_pT", p, T)
            # consistency with the (p,h) and (p,s) parametrisations
            A(self._f("s_ph", p, hh).t == ss.t)
            A(self._f("h_ps", p, ss).t == hh.t)
            A(self._f("T_ph", p, hh).t == T.t)
            self._sat_axioms(p)
            Ts = self._f("Tsat", p)
            A(z3.Implies(T.t >= Ts.t, hh.t >= self._f("hg", p).t))
            A(z3.Implies(T.t <= Ts.t, hh.t <= self._f("hf", p).t))
        elif pair == CP.PSmass_INPUTS:
            p, ss = a, b
            hh = self._f("h_ps", p, ss)
            T = self._f("T_ps", p, ss)
            A(self._f("s_ph", p, hh).t == ss.t)
        elif pair == CP.HmassP_INPUTS:
            hh, p = a, b
            T = self._f("T_ph", p, hh)
            ss = self._f("s_ph", p, hh)
            A(self._f("h_ps", p, ss).t == hh.t)
            A(self._f("h_pT", p, T).t == hh.t)
            A(self._f("s_pT", p, T).t == ss.t)
        else:
            raise NotImplementedError(f"input pair {pair}")
        for v in (hh,):
            A(z3.And(v.t >= -1e7, v.t <= 1e7))
        # temperature of a state relative to saturation at its pressure: two-phase states sit at T_sat
        Tsp, hgp, hfp = self._f("Tsat", p), self._f("hg", p), self._f("hf", p)
        A(hgp.t > hfp.t)
        A(z3.Implies(z3.And(hh.t >= hfp.t, hh.t <= hgp.t), T.t == Tsp.t))
        A(z3.Implies(hh.t >= hgp.t, T.t >= Tsp.t))
        A(z3.Implies(hh.t <= hfp.t, T.t <= Tsp.t))
        # domain assumption (sub-critical cycle away from the critical region): saturated liquid at any pressure seen so far
        # has less enthalpy than saturated vapour at any other pressure seen so far
        for (p2, T2, h2, s2) in (self.states if self.domain else []):
            A(self._f("hf", p).t < self._f("hg", p2).t)
            A(self._f("hf", p2).t < hgp.t)
        # pairwise physical monotonicities against every state seen so far on this path
        for (p2, T2, h2, s2) in self.states:
            # same pressure: s and T non-decreasing in h; h non-decreasing in T
            same_p = p.t == p2.t
            A(z3.Implies(z3.And(same_p, hh.t >= h2.t), z3.And(ss.t >= s2.t, T.t >= T2.t)))
            A(z3.Implies(z3.And(same_p, hh.t <= h2.t), z3.And(ss.t <= s2.t, T.t <= T2.t)))
            A(z3.Implies(z3.And(same_p, T.t > T2.t), hh.t >= h2.t))
            A(z3.Implies(z3.And(same_p, T.t < T2.t), hh.t <= h2.t))
            # same entropy: h strictly increasing in p
            same_s = ss.t == s2.t
            A(z3.Implies(z3.And(same_s, p.t > p2.t), hh.t > h2.t))
            A(z3.Implies(z3.And(same_s, p.t < p2.t), hh.t < h2.t))
            # same enthalpy: entropy non-increasing in p (throttling)
            same_h = hh.t == h2.t
            A(z3.Implies(z3.And(same_h, p.t <= p2.t), ss.t >= s2.t))
            A(z3.Implies(z3.And(same_h, p.t >= p2.t), ss.t <= s2.t))
        self.states.append((p, T, hh, ss))
        self._p, self._T, self._h, self._s = p, T, hh, ss

    def _sat_axioms(self, p):
        A = self._assume
        A(self._f("hg", p).t > self._f("hf", p).t)
        A(self._f("sg", p).t > self._f("sf", p).t)

    def p(self):
        return self._p

    def T(self):
        return self._T

    def hmass(self):
        return self._h

    def smass(self):
        return self._s


def _psat_monotone(ctx, Ts, prefix=""):
    """p_sat strictly increasing: instantiate pairwise on the saturation temperatures used."""
    ps = [uf.app(prefix + "psat", lift(T)) for T in Ts]
    for i in range(len(Ts)):
        for j in range(i + 1, len(Ts)):
            core.EX.assume(z3.And(z3.Implies(lift(Ts[i]).t < lift(Ts[j]).t, ps[i].t < ps[j].t),
                                  z3.Implies(lift(Ts[i]).t > lift(Ts[j]).t, ps[i].t > ps[j].t),
                                  z3.Implies(lift(Ts[i]).t == lift(Ts[j]).t, ps[i].t == ps[j].t)))


def body(ctx, case):
    import numpy as np
    from OpenPinch.classes import simple_heat_pump as shp
    # inside the two-phase range of the fluid the concrete replays use (water: 0.01..374 C, ammonia: -77.7..132 C), away from its ends
    # n-pentane is a 'dry' fluid (overhanging dew line): with little superheat its compression ends inside the dome, so the
    # wet-discharge paths of the model have concrete replays too
    te_lo, te_hi, tc_hi, sh_hi = {"water": (5, 90, 200, 20) if not case.get("prior") else (5, 60, 100, 20), "ammonia": (-40, 40, 100, 20), "n-Pentane": (30, 80, 160, 0.5), "D4": (40, 60, 230, 5)}[case.get("fluid", "water")]
    Te = ctx.real("Te", te_lo, te_hi)
    # D4 (a heavy siloxane): saturated liquid at 200 C has MORE enthalpy than saturated vapour at 60 C, so with these ranges the
    # 'condenser outlet above evaporator outlet' branch of _compute_condenser_outlet_state is taken on the real library
    Tc = ctx.real("Tc", te_lo if case.get("fluid") != "D4" else 200, tc_hi)
    dsh = ctx.real("dsh", 0, sh_hi)
    dsc = ctx.real("dsc", 0, 20)
    eta = ctx.const(float(case.get("eta", 0.75)))      # concrete: h_out = h_in + (h_is - h_in)/eta stays linear in the state functions
    Q = ctx.const(float(case.get("Q", 1000.0)))
    ctx.assume(Tc - Te >= 1)
    ctx.assume(Tc - dsc >= Te + dsh + 1.0 / 4)     # condenser outlet stays above the evaporator outlet temperature
    lift_ok = Tc - Te - dsc - dsh >= 5
    if case.get("small_lift"):
        ctx.assume(h.neg(lift_ok))
        ctx.assume(Tc - Te - dsc - dsh <= 4.75)
    else:
        ctx.assume(lift_ok)
    ctx.region("lift_below_5K", h.neg(lift_ok))
    if case.get("prior"):
        # history: ANOTHER fluid's cycle was solved earlier in the same process, on its own instance, at the same temperatures
        # (refrigerant comparison on a fixed temperature grid).  Whatever it did must not influence the cycle checked below.
        other = shp.SimpleHeatPumpCycle()
        saved0 = shp.SimpleHeatPumpCycle._validate_solve_inputs
        try:
            if ctx.mode == "concrete":
                other.solve(Te, Tc, dT_sh=dsh, dT_sc=dsc, eta_comp=eta, refrigerant=case["prior"], ihx_gas_dt=0.0, Q_h_total=Q)
            else:
                other._state = FluidStub(ctx, domain=True, prefix="o_")
                other._p_crit, other._t_crit, other._d_crit = 1e12, 1e6, 1.0
                _psat_monotone(ctx, [Te + 273.15, Tc + 273.15], prefix="o_")
                shp.SimpleHeatPumpCycle._validate_solve_inputs = lambda self, refrigerant=None: True
                other.solve(Te, Tc, dT_sh=dsh, dT_sc=dsc, eta_comp=eta, refrigerant="other", ihx_gas_dt=0.0, Q_h_total=Q)
            ctx.tag("another fluid solved before")
        except Exception:
            ctx.tag("another fluid: cycle refused")      # the earlier cycle is history, not the subject
        finally:
            shp.SimpleHeatPumpCycle._validate_solve_inputs = saved0
    cyc = shp.SimpleHeatPumpCycle()
    if ctx.mode == "concrete":
        fluid = case.get("fluid", "water")
        try:
            work = cyc.solve(Te, Tc, dT_sh=dsh, dT_sc=dsc, eta_comp=eta, refrigerant=fluid, ihx_gas_dt=0.0, Q_h_total=Q)
        except Exception:
            if case.get("small_lift"):
                # the negative 'IHX temperature rise' sends the property library to an invalid state
                ctx.require(False, "throttling conserves enthalpy")
                return
            raise
    else:
        stub = FluidStub(ctx, domain=not case.get("heavy"))
        cyc._state = stub
        cyc._p_crit, cyc._t_crit, cyc._d_crit = 1e12, 1e6, 1.0
        _psat_monotone(ctx, [Te + 273.15, Tc + 273.15])
        saved = shp.SimpleHeatPumpCycle._validate_solve_inputs
        shp.SimpleHeatPumpCycle._validate_solve_inputs = lambda self, refrigerant=None: True
        try:
            work = cyc.solve(Te, Tc, dT_sh=dsh, dT_sc=dsc, eta_comp=eta, refrigerant="stub", ihx_gas_dt=0.0, Q_h_total=Q)
        except ZeroDivisionError:
            if case.get("small_lift"):
                ctx.tag("small lift: degenerate cycle (zero specific duty feasible)")
                return
            raise
        finally:
            shp.SimpleHeatPumpCycle._validate_solve_inputs = saved
    H, S, P = cyc.Hs, cyc.Ss, cyc.Ps
    if case.get("small_lift"):
        ctx.require(h.close(H[3], H[2], 1e-9 if ctx.mode != "concrete" else 1.0), "throttling conserves enthalpy")
        ctx.tag("small lift explored")
        return
    tolH = 1e-6 * 1e6 if ctx.mode == "concrete" else 1e-9
    ctx.require(h.close(cyc.Q_cond, cyc.Q_evap + work, 1e-6 * Q + 1e-9), "condenser duty equals evaporator duty plus compressor work")
    ctx.require(work > 0, "compressor work is positive")
    ctx.require(h.close(cyc.COP_h, cyc.COP_r + 1, 1e-6), "heating COP equals cooling COP plus one")
    ctx.require(S[1] >= S[0] - 1e-6, "compression does not decrease specific entropy")
    ctx.require(S[3] >= S[2] - 1e-6, "throttling does not decrease specific entropy")
    ctx.require(h.close(H[3], H[2], tolH), "throttling conserves enthalpy")
    if ctx.mode != "concrete":
        ctx.require(h.conj([h.close(P[0], uf.app("psat", lift(Te + 273.15)), 1e-9), h.close(P[2], uf.app("psat", lift(Tc + 273.15)), 1e-9),
                            h.close(P[1], P[2], 1e-9), h.close(P[3], P[0], 1e-9)]),
                    "evaporator and condenser pressures are the saturation pressures of the requested temperatures")
    else:
        import CoolProp.CoolProp as CPP
        fl = case.get("fluid", "water")
        ctx.require(abs(P[0] - CPP.PropsSI("P", "T", Te + 273.15, "Q", 1, fl)) <= 1e-6 * P[0] and abs(P[2] - CPP.PropsSI("P", "T", Tc + 273.15, "Q", 1, fl)) <= 1e-6 * P[2],
                    "evaporator and condenser pressures are the saturation pressures of the requested temperatures")
    # stream sets: request order is a solver choice
    order = ctx.choice("order", 3)
    ctx.region("evap_requested_before_cond", order == 1)
    if order == 0:
        hot = list(cyc.build_stream_collection(include_cond=True))
        cold = list(cyc.build_stream_collection(include_evap=True))
    elif order == 1:
        cold = list(cyc.build_stream_collection(include_evap=True))
        hot = list(cyc.build_stream_collection(include_cond=True))
    else:
        both = list(cyc.build_stream_collection(include_cond=True, include_evap=True))
        hot = [s for s in both if s.name.startswith("Condenser")]
        cold = [s for s in both if s.name.startswith("Evaporator")]
    ctx.tag(f"order={order}")
    qh = sum((s.heat_flow for s in hot), ctx.const(0.0))
    qc = sum((s.heat_flow for s in cold), ctx.const(0.0))
    ctx.require(h.close(qh, cyc.Q_cond, 1e-6 * Q + 1e-9), "emitted hot streams carry exactly the condenser duty")
    ctx.require(h.close(qc, cyc.Q_evap, 1e-6 * Q + 1e-9), "emitted cold streams carry exactly the evaporator duty")
    ctx.require(h.conj([s.t_supply >= s.t_target for s in hot] + [s.t_supply <= s.t_target for s in cold]), "hot streams cool and cold streams heat monotonically")
    ctx.note("work_over_Q", work / Q)


def cases(tier, seed):
    if tier == "quick":
        return [{"fluid": "water", "eta": 0.75, "Q": 1000.0}, {"fluid": "n-Pentane", "eta": 1.0, "Q": 1000.0}, {"fluid": "D4", "eta": 0.75, "Q": 1000.0, "heavy": True},
                {"fluid": "water", "eta": 0.75, "Q": 1000.0, "small_lift": True}, {"fluid": "water", "eta": 0.75, "Q": 1000.0, "prior": "ammonia"}]
    return ([{"fluid": "water", "eta": 0.75, "Q": 1000.0, "prior": "ammonia"}, {"fluid": "water", "eta": 1.0, "Q": 250.0, "prior": "R134a"}] + [{"fluid": f, "eta": e, "Q": q} for f in ("water", "ammonia", "n-Pentane") for e, q in ((0.5, 1000.0), (0.75, 40.0), (1.0, 250.0))]
            + [{"fluid": "D4", "eta": e, "Q": 1000.0, "heavy": True} for e in (0.5, 0.75, 1.0)]
            + [{"fluid": "water", "eta": 0.75, "Q": 1000.0, "small_lift": True}])


FAMILIES = [
    Family(name="cycle", cases=cases, body=body, functions=FUNCS, files=FILES,
           bounds="evaporating temperature in [5,90] C and condensing up to 200 C (water replays; ammonia: [-40,40] and up to 100 C; n-pentane: [30,80] and up to 160 C, superheat <= 0.5 K; D4: [40,60] and [200,230] C, superheat <= 5 K, without the domain assumption) with lift >= 1 K, superheat and subcooling in [0,20] K, compressor efficiency concrete in {0.5, 0.75, 1} and duty concrete (the cycle is linear in the duty) "
                  "-- temperatures, superheat and subcooling z3 reals; ihx_gas_dt = 0; `prior` cases: a cycle of ANOTHER fluid (its own uninterpreted state functions; replays: ammonia / R134a, water cycle in [5,60] -> <= 100 C) is solved first on its own instance at the same temperatures;  request order of the stream sets (condenser first / evaporator first / both at once) a solver choice",
           assumptions=["CoolProp AbstractState replaced by uninterpreted state functions under the contract: " + "; ".join(CONTRACT),
                        "sub-critical cycles only (critical point moved out of range)", "replay on the real library with water, n-pentane and D4 (thorough: also ammonia) at the model's temperatures"],
           shim_modules=["OpenPinch.classes.simple_heat_pump", "OpenPinch.classes.stream", "OpenPinch.classes.stream_collection"],
           timeout_ms=60000, split_paths=20, validate_every=3, concrete_only_validation=True, snap="dyadic", reach=["order=0", "order=1", "order=2", "small lift explored", "another fluid solved before"]),
]
