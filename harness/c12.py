"""C12 -- results are invariant under equivalent descriptions of the problem.

The real service runs TWICE on one path -- on a problem with one symbolic quantity and on its transformed twin -- and
the records are compared as terms: stream order, split of a stream at a symbolic intermediate temperature, parallel
split, zone renaming / reordering, uniform translation by a symbolic shift, uniform duty scaling, mirroring of the
temperature axis with hot <-> cold.
"""
from __future__ import annotations

from symx import h
from symx.runner import Family

from harness import pipeline, service

PROPERTY = "C12"
LEVEL = "model_checking"
FILES = pipeline.FILES
FUNCS = ["pinch_analysis_service"] + pipeline.FUNCS

TEMPLATES = {
    "one_zone": [("Z1", "H1", 150.0, 60.0, 2.0, 5.0), ("Z1", "C1", 50.0, 140.0, 3.0, 5.0)],
    "two_zones": [("Z1", "H1", 200.0, 100.0, 2.0, 5.0), ("Z2", "C1", 60.0, 160.0, 3.0, 5.0)],
    "three": [("Z1", "H1", 250.0, 120.0, 2.0, 5.0), ("Z1", "C1", 110.0, 180.0, 3.0, 5.0), ("Z2", "H2", 140.0, 40.0, 1.0, 5.0)],
}
# two separated pinches (shifted 160 and 80) with the cascade lifting off zero between them
TEMPLATES["two_pinches"] = [("Z1", "HA", 205.0, 85.0, 1.0, 5.0), ("Z1", "HB", 165.0, 125.0, 2.0, 5.0), ("Z1", "HC", 85.0, 45.0, 2.0, 5.0), ("Z1", "C1", 75.0, 195.0, 2.0, 5.0)]
MIRROR_AXIS = 500.0


def mk_stream(ctx, zone, name, ts, tt, cp, dt, scale=1.0):
    duty = cp * h.vabs(ts - tt) * scale
    return {"zone": zone, "name": name, "t_supply": ts, "t_target": tt, "heat_flow": duty, "dt_cont": ctx.const(dt), "htc": ctx.const(1.0)}


def build_base(ctx, case):
    tpl = TEMPLATES[case["template"]]
    streams = []
    x = None
    for i, (zone, name, ts, tt, cp, dt) in enumerate(tpl):
        tsv, ttv = ctx.const(ts), ctx.const(tt)
        if i == case.get("sym", 0) and case.get("sweep", True):
            x = ctx.real("x", 0, 500)
            if ts > tt:
                ctx.assume(x - ttv >= 1)
            else:
                ctx.assume(ttv - x >= 1)
            tsv = x
        streams.append((zone, name, tsv, ttv, cp, dt))
    # breakpoints well separated
    if x is not None:
        pts = []
        for i, (zone, name, ts, tt, cp, dt) in enumerate(tpl):
            for t in ((tt,) if i == case.get("sym", 0) else (ts, tt)):
                pts.append(t)
        mydt = tpl[case.get("sym", 0)][5]
        for p in pts:
            for sx in (x - mydt, x + mydt):
                for off in (-10.1, -10.0, -9.9, -5.1, -5.0, -4.9, 0.0, 4.9, 5.0, 5.1, 9.9, 10.0, 10.1, -0.1, 0.1):
                    d = sx - (p + off)
                    ctx.assume(h.disj([h.close(d, 0.0, 0.0), d >= pipeline.GAPP, -d >= pipeline.GAPP]))
    return streams, x


def records_by_name(res):
    return {r["name"]: r for r in service.result_view(res)["targets"]}


def util_map(lst):
    return {u["name"]: u["heat_flow"] for u in lst}


def compare(ctx, base, twin, tot, what, rename=None, shift=0.0, scale=1.0, mirror=False):
    rename = rename or {}
    tol = 1e-6 * tot * max(1.0, scale)
    ctx.require(sorted(rename.get(n.split("/")[0], n.split("/")[0]) + "/" + n.split("/", 1)[1] for n in base) == sorted(twin), f"{what}: same set of records")
    conds = []
    for n, rb in base.items():
        zn, kind = n.split("/", 1)
        rt = twin.get(rename.get(zn, zn) + "/" + kind)
        if rt is None:
            continue
        if mirror:
            conds += [h.close(rt["Qh"], rb["Qc"] * scale, tol), h.close(rt["Qc"], rb["Qh"] * scale, tol), h.close(rt["Qr"], rb["Qr"] * scale, tol)]
            hb, cb = util_map(rb["hot_utilities"]), util_map(rb["cold_utilities"])
            ht, ct = util_map(rt["hot_utilities"]), util_map(rt["cold_utilities"])
            if "HU" in hb and "CU" in ct:
                conds += [h.close(ct["CU"], hb["HU"] * scale, tol), h.close(ht["HU"], cb["CU"] * scale, tol)]
        else:
            conds += [h.close(rt["Qh"], rb["Qh"] * scale, tol), h.close(rt["Qc"], rb["Qc"] * scale, tol), h.close(rt["Qr"], rb["Qr"] * scale, tol)]
            for side in ("hot_utilities", "cold_utilities"):
                ub, ut = util_map(rb[side]), util_map(rt[side])
                for k in ub:
                    if k in ut:
                        conds.append(h.close(ut[k], ub[k] * scale, tol))
        if kind != "Total Site Target" or not mirror:
            pb, pt = rb["temp_pinch"], rt["temp_pinch"]
            if mirror:
                # hot pinch of the mirrored problem = axis - cold pinch of the original (shifted scale), and vice versa
                hb = pb.get("hot_temp") if pb.get("hot_temp") is not None else pb.get("cold_temp")
                cb = pb.get("cold_temp")
                ht = pt.get("hot_temp") if pt.get("hot_temp") is not None else pt.get("cold_temp")
                ct = pt.get("cold_temp")
                if None not in (hb, cb, ht, ct):
                    conds += [h.close(ht, MIRROR_AXIS - cb, 1e-6), h.close(ct, MIRROR_AXIS - hb, 1e-6)]
                else:
                    conds.append((hb is None) == (ht is None) and (cb is None) == (ct is None))
            else:
                for k in ("cold_temp", "hot_temp"):
                    vb, vt = pb.get(k), pt.get(k)
                    if vb is None or vt is None:
                        conds.append(vb is None and vt is None)
                    else:
                        conds.append(h.close(vt, vb + shift, 1e-6))
    ctx.require(h.conj(conds), f"{what}: targets, utility duties and pinch temperatures agree")


GLIDE_UTILS = [  # (name, type, t_supply, t_target, dt): non-isothermal loops; the glycol loop returns at exactly 0.0
    ("HotOil", "Hot", 300.0, 260.0, 5.0), ("Glycol", "Cold", -10.0, 0.0, 5.0)]


def mk_utils(ctx, case, shift=0.0):
    if not case.get("utils"):
        return []
    return [{"name": n, "type": ty, "t_supply": ctx.const(ts) + shift, "t_target": ctx.const(tt) + shift, "dt_cont": ctx.const(dt),
             "htc": ctx.const(1.0), "price": ctx.const(40.0)} for n, ty, ts, tt, dt in GLIDE_UTILS]


def body(ctx, case):
    tr = case["transform"]
    streams, x = build_base(ctx, case)
    base_spec = {"streams": [mk_stream(ctx, *s) for s in streams], "utilities": mk_utils(ctx, case), "options": {"DO_BALANCED_CC": False}}
    tot = sum((s["heat_flow"] for s in base_spec["streams"]), ctx.const(0.0))
    kw = {}
    if tr == "permute":
        twin_streams = list(reversed(base_spec["streams"]))
    elif tr == "rename":
        ren = {"Z1": "Omega", "Z2": "Alpha"}
        twin_streams = [dict(s, zone=ren[s["zone"]]) for s in reversed(base_spec["streams"])]
        kw["rename"] = ren
    elif tr == "split_T":
        zone, name, ts, tt, cp, dt = streams[case.get("split", 1)]
        m = ctx.real("m", 0, 500)
        lo, hi = (tt, ts) if bool(ts > tt) else (ts, tt)
        ctx.assume(h.conj([m - lo >= 1, hi - m >= 1]))
        for s2 in streams:
            for t in (s2[2], s2[3]):
                for off in (-10.0, 0.0, 10.0):
                    d = m - (t + off)
                    ctx.assume(h.disj([h.close(d, 0.0, 0.0), d >= pipeline.GAPP, -d >= pipeline.GAPP]))
        twin = [s for i, s in enumerate(streams) if i != case.get("split", 1)]
        na, nb = (name, name) if case.get("same_names") else (name + "a", name + "b")     # the pieces may keep the stream's name
        twin += [(zone, na, ts, m, cp, dt), (zone, nb, m, tt, cp, dt)]
        twin_streams = [mk_stream(ctx, *s) for s in twin]
    elif tr == "split_parallel":
        zone, name, ts, tt, cp, dt = streams[case.get("split", 1)]
        twin = [s for i, s in enumerate(streams) if i != case.get("split", 1)]
        na, nb = (name, name) if case.get("same_names") else (name + "a", name + "b")
        twin += [(zone, na, ts, tt, cp * 0.25, dt), (zone, nb, ts, tt, cp * 0.75, dt)]
        twin_streams = [mk_stream(ctx, *s) for s in twin]
    elif tr == "translate":
        d = ctx.real("delta", -30, 30)
        twin_streams = [mk_stream(ctx, z, n, ts + d, tt + d, cp, dt) for z, n, ts, tt, cp, dt in streams]
        kw["shift"] = d
    elif tr == "scale":
        lam = case["lam"]
        twin_streams = [mk_stream(ctx, *s, scale=lam) for s in streams]
        kw["scale"] = lam
    elif tr == "mirror":
        twin_streams = [mk_stream(ctx, z, n, MIRROR_AXIS - ts, MIRROR_AXIS - tt, cp, dt) for z, n, ts, tt, cp, dt in streams]
        kw["mirror"] = True
    else:
        raise ValueError(tr)
    twin_spec = {"streams": twin_streams, "utilities": mk_utils(ctx, case, kw.get("shift", 0.0)), "options": {"DO_BALANCED_CC": False}}
    if case.get("one_name"):
        # stream names need not be unique: every stream of both descriptions carries the same name
        for sp in (base_spec, twin_spec):
            sp["streams"] = [dict(st, name="S") for st in sp["streams"]]
    if case.get("tree"):
        # explicit zone tree (streams sit directly in the user's zones, several per zone) instead of the synthesised one
        ren = kw.get("rename") or {}
        for sp, names in ((base_spec, lambda z: z), (twin_spec, lambda z: ren.get(z, z))):
            zs = []
            for st in sp["streams"]:
                if st["zone"] not in zs:
                    zs.append(st["zone"])
            sp["zone_tree"] = {"name": "Site", "type": "Site", "children": [{"name": z, "type": "Process Zone", "children": None} for z in zs]}
        ctx.tag("explicit zone tree")
    rb = records_by_name(service.call_service(ctx, service.make_input(ctx, base_spec, "dict"), project_name="Site"))
    rt = records_by_name(service.call_service(ctx, service.make_input(ctx, twin_spec, "dict"), project_name="Site"))
    compare(ctx, rb, rt, tot, tr, **kw)
    ctx.tag(f"transform={tr}")
    ctx.note("Qh", rb["Site/Direct Integration"]["Qh"]); ctx.note("Qc", rb["Site/Direct Integration"]["Qc"])
    ctx.note("Qh_twin", rt["Site/Direct Integration"]["Qh"])


def cases(tier, seed):
    out = []
    if tier == "quick":
        out.append({"template": "two_zones", "transform": "permute"})
        out.append({"template": "two_zones", "transform": "rename"})
        out.append({"template": "one_zone", "transform": "split_parallel", "split": 1})
        out.append({"template": "one_zone", "transform": "split_T", "split": 1, "sweep": False})
        out.append({"template": "two_zones", "transform": "translate", "sweep": False})
        out.append({"template": "two_zones", "transform": "translate", "sweep": False, "utils": True})
        out.append({"template": "one_zone", "transform": "mirror"})
        out.append({"template": "one_zone", "transform": "split_T", "split": 1, "sweep": False, "tree": True, "same_names": True})
        out.append({"template": "two_pinches", "transform": "split_T", "split": 3, "sweep": False})
    else:
        out.append({"template": "two_pinches", "transform": "split_T", "split": 3, "sweep": False})
        out.append({"template": "two_pinches", "transform": "split_T", "split": 0, "sweep": False})
        out.append({"template": "two_pinches", "transform": "split_parallel", "split": 3, "sweep": False})
        for tp in ("one_zone", "two_zones", "three"):
            for tr in ("permute", "split_parallel", "mirror"):
                out.append({"template": tp, "transform": tr, "lam": 0.5, "split": 1})
            out.append({"template": tp, "transform": "translate", "sweep": False})
            out.append({"template": tp, "transform": "translate", "sweep": False, "utils": True})
            out.append({"template": tp, "transform": "split_T", "split": 1, "sweep": False})
            out.append({"template": tp, "transform": "split_T", "split": 0, "sweep": False})
        out.append({"template": "two_zones", "transform": "rename"})
        out.append({"template": "three", "transform": "rename"})
        out.append({"template": "two_zones", "transform": "mirror", "sym": 1})
        for tp in ("one_zone", "three"):
            out.append({"template": tp, "transform": "split_T", "split": 1, "sweep": False, "tree": True, "same_names": True})
            out.append({"template": tp, "transform": "split_parallel", "split": 1, "tree": True, "same_names": True})
            out.append({"template": tp, "transform": "permute", "tree": True, "one_name": True})
    return out


FAMILIES = [
    Family(name="twins", cases=cases, body=body, functions=FUNCS, files=FILES,
           bounds="site templates of 2-3 streams in 1-2 zones (default utilities) with one supply temperature a z3 real (or, for stream splitting and translation, the split temperature / "
                  "the shift a z3 real on a concrete problem); transformations: stream permutation, zone renaming + reordering, split at a symbolic temperature, parallel split 25/75, "
                  "translation by a symbolic shift in [-30,30], mirroring T -> 500 - T with hot <-> cold; splitting also with an explicit zone tree and pieces that keep the stream's name "
                  "(thorough: permutation of streams that all share one name)",
           assumptions=["floats modelled as exact reals", "pydantic stand-ins and identity curve cleaning during symbolic runs", "breakpoints equal or >= 0.25 K apart",
                        "uniform duty scaling is outside the claim: the code's absolute zero tolerances (1e-6 kW) make residuals inside the band (0, 1e-6 x lambda) scale-dependent; "
                        "the reals model finds such inputs but they do not exist on the 1e-6 K input lattice (not replayable), so the family would be inconclusive by construction",
                        "graph data comparison is outside"],
           shim_modules=None, snap="micro", split_paths=6, validate_every=4, reach=["explicit zone tree"], case_cap_s=3000),
]
