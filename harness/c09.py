"""C09 -- see harness/pipeline.py (shared site-targeting harness)."""
from harness import pipeline

PROPERTY = "C09"
LEVEL = "model_checking"
FAMILIES = pipeline.families(("C09",))
