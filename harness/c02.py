"""C02 -- every reported target closes the first-law balance (see harness/pipeline.py)."""
from harness import pipeline

PROPERTY = "C02"
LEVEL = "model_checking"
FAMILIES = pipeline.families(("C02",))
