"""Independent reference for the counter-current area target (C15).

Inputs: hot and cold participants (process streams and utilities with their assigned duties) as
(T_high, T_low, CP, r) with concrete temperatures / heat-capacity flowrates and film resistances r that may be symbolic.
The balanced hot and cold composite curves T(H) are built from the participants, the union of their enthalpy breakpoints
gives the enthalpy intervals, and

    A = sum_i  Q_i * (R_hot_i + R_cold_i) / LMTD_i ,   R_side_i = sum_j CP_j r_j / sum_j CP_j  over the participants of that
                                                        side present in the interval (duty-weighted film resistance)

with LMTD_i the counter-current log-mean of the temperature differences at the two ends of the enthalpy interval.
"""
from __future__ import annotations

import math


def _segments(parts):
    """ascending-temperature list of (H_a, H_b, T_a, T_b, [(CP, r)]) for one side; gaps (no participant) carry no enthalpy."""
    temps = sorted({t for p in parts for t in (p[0], p[1])})
    segs = []
    H = 0.0
    for lo, hi in zip(temps, temps[1:]):
        act = [(p[2], p[3]) for p in parts if p[1] <= lo + 1e-12 and p[0] >= hi - 1e-12 and p[2] > 0]
        cp = sum(a[0] for a in act)
        if cp <= 0:
            continue
        segs.append((H, H + cp * (hi - lo), lo, hi, act))
        H += cp * (hi - lo)
    return segs, H


def _at(segs, H, side):
    """temperature of the curve at enthalpy H approached from the given side ('right': the segment starting at H)."""
    for (a, b, lo, hi, act) in segs:
        if (side == "right" and a - 1e-9 <= H < b - 1e-9) or (side == "left" and a + 1e-9 < H <= b + 1e-9):
            return lo + (hi - lo) * ((H - a) / (b - a)), act
    raise ValueError(f"enthalpy {H} outside the curve")


def lmtd(d1, d2):
    if abs(d1 - d2) < 1e-9:
        return 0.5 * (d1 + d2)
    return (d1 - d2) / math.log(d1 / d2)


def area(hot_parts, cold_parts):
    """returns (area, intervals) -- area is linear in the film resistances (which may be symbolic)."""
    hs, Hh = _segments(hot_parts)
    cs, Hc = _segments(cold_parts)
    if abs(Hh - Hc) > 1e-6 * max(1.0, Hh):
        raise ValueError(f"unbalanced: hot {Hh} cold {Hc}")
    grid = sorted({round(x, 9) for s in hs + cs for x in (s[0], s[1])})
    # merge grid points closer than 1e-7 (the two sides agree on the total only to rounding)
    g2 = []
    for x in grid:
        if not g2 or x - g2[-1] > 1e-7:
            g2.append(x)
    total = 0.0
    out = []
    for a, b in zip(g2, g2[1:]):
        th1, hact = _at(hs, a, "right")
        th2, _ = _at(hs, b, "left")
        tc1, cact = _at(cs, a, "right")
        tc2, _ = _at(cs, b, "left")
        lm = lmtd(th1 - tc1, th2 - tc2)
        rh = sum((cp * r for cp, r in hact), 0.0) * (1.0 / sum(cp for cp, _ in hact))
        rc = sum((cp * r for cp, r in cact), 0.0) * (1.0 / sum(cp for cp, _ in cact))
        total = total + (rh + rc) * ((b - a) / lm)
        out.append((a, b, th1, th2, tc1, tc2, lm))
    return total, out
