"""Shared family `gcc_shapes` (C03, C04): utility targeting on ARBITRARY grand composite curves.

unit: get_additional_GCCs (pocket removal, load profiles), ProblemTable.pinch_idx, get_utility_targets, _target_utility,
_assign_utility, _maximise_utility_duty, get_utility_heat_cascade, problem_table_algorithm, get_seperated_gcc_heat_load_profiles.
The GCC is a constant-slope table (all slope-sign vectors, symbolic gaps, solver-placed pinches -- the C07 construction), extended
by the rows of one isothermal hot utility above and one isothermal cold utility below the process range (exactly the rows the
pipeline's table has for its default utilities).  This reaches multiple pinches with a pocket between them, several pockets per side
and pinches on the end rows, which 2-3 stream pipelines cannot produce.
"""
from __future__ import annotations

import itertools

from symx import h
from symx.runner import Family

from harness import c07

FILES = ["OpenPinch/analysis/utility_targeting.py", "OpenPinch/analysis/gcc_manipulation.py", "OpenPinch/analysis/problem_table_analysis.py",
         "OpenPinch/classes/problem_table.py", "OpenPinch/classes/stream.py"]
FUNCS = ["get_additional_GCCs", "get_utility_targets", "_target_utility", "_assign_utility", "_maximise_utility_duty", "get_utility_heat_cascade",
         "problem_table_algorithm", "get_seperated_gcc_heat_load_profiles", "ProblemTable.pinch_idx"]


def body(ctx, case, want):
    from OpenPinch.analysis import gcc_manipulation as gcc
    from OpenPinch.analysis import utility_targeting as ut
    from OpenPinch.classes.problem_table import ProblemTable
    from OpenPinch.classes.stream import Stream
    from OpenPinch.classes.stream_collection import StreamCollection
    from OpenPinch.lib.enums import PT
    slopes = case["slopes"]
    Tin, Hin = c07.build_gcc(ctx, slopes)
    # utility rows: HU* = [T_top + 9.9, T_top + 10], CU* = [T_bot - 10, T_bot - 9.9]   (shifted scale, dT_cont = 5)
    Ts = [Tin[0] + 10.0, Tin[0] + 9.9] + list(Tin) + [Tin[-1] - 9.9, Tin[-1] - 10.0]
    Hs = [Hin[0], Hin[0]] + list(Hin) + [Hin[-1], Hin[-1]]
    pt = ProblemTable({PT.T.value: Ts, PT.H_NET.value: Hs})
    gcc.get_additional_GCCs(pt)
    hu = Stream("HU", Tin[0] + 15.0, Tin[0] + 14.9, dt_cont=5.0, htc=1.0, is_process_stream=False)
    cu = Stream("CU", Tin[-1] - 15.0, Tin[-1] - 14.9, dt_cont=5.0, htc=1.0, is_process_stream=False)
    hus, cus = StreamCollection(), StreamCollection()
    hus.add(hu)
    cus.add(cu)
    ut.get_utility_targets(pt, None, hus, cus, is_direct_integration=True)
    Qh, Qc = Hin[0], Hin[-1]
    tol = 1e-6 * (1.0 + Qh + Qc)
    if "C03" in want:
        ctx.require(h.conj([h.close(hu.heat_flow, Qh, tol), h.close(cu.heat_flow, Qc, tol), hu.heat_flow >= -tol, cu.heat_flow >= -tol]),
                    "C03 gcc shape: hot utility duty equals Qh and cold utility duty equals Qc")
    if "C04" in want:
        A = h.col(pt, PT.H_NET_A.value)
        U = h.col(pt, PT.H_NET_UT.value)
        ctx.require(h.conj([h.conj([U[k] >= -tol, U[k] <= A[k] + tol]) for k in range(len(A))]),
                    "C04 gcc shape: utility GCC lies between zero and the pocket-free process GCC at every row")
    if len(pt) > len(Ts):
        ctx.tag("pocket breakpoint inserted")
    rh, rc, valid = pt.pinch_idx(PT.H_NET.value)
    if valid and rh + 1 < rc:
        ctx.tag("two pinches with rows between them")
    ctx.note("HU", hu.heat_flow); ctx.note("CU", cu.heat_flow)


def cases(tier, seed):
    out = []
    for n in ((2, 3, 4) if tier == "quick" else (2, 3, 4, 5)):
        for sv in itertools.product((-1, 0, 1), repeat=n - 1):
            out.append({"slopes": list(sv)})
    for sv in itertools.product((-1, 1), repeat=4 if tier == "quick" else 5):
        out.append({"slopes": list(sv)})
    # three pockets on one side of the pinch (8 rows, alternating unit slopes; both orientations): two pocket-closing rows are inserted
    # before the third pocket is reached, so every row index kept across an insertion matters
    out.append({"slopes": [-1, 1, -1, 1, -1, 1, -1]})
    out.append({"slopes": [1, -1, 1, -1, 1, -1, 1]})
    return out


def family(want):
    def mk(ctx, case):
        return body(ctx, case, want)
    return Family(name="gcc_shapes", cases=cases, body=mk, functions=FUNCS, files=FILES,
                  bounds="grand composite curves of 2-4 rows with every slope-sign vector in {-1,0,+1} plus all +/-1 vectors of 5 rows (thorough: complete to 5 rows, +/-1 to 6) and the two alternating +/-1 vectors of 8 rows (three pockets on one side), "
                         "gaps in [0.01,100] K, offset and top temperature symbolic, min H = 0 with solver-placed pinch(es); one isothermal hot utility above and one cold utility below the range",
                  assumptions=["floats modelled as exact reals", "per-interval GCC slopes concrete (unit magnitude); distinct enthalpy values >= 1e-3 apart",
                               "utilities: one default-like level per side (ladders are covered by the pipeline families)"],
                  shim_modules=None, snap="dyadic", split_paths=40, validate_every=3,
                  reach=["pocket breakpoint inserted", "two pinches with rows between them"])
