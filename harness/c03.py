"""C03 -- see harness/pipeline.py (shared site-targeting harness)."""
from harness import gccutil, pipeline

PROPERTY = "C03"
LEVEL = "model_checking"
FAMILIES = pipeline.families(("C03",)) + [gccutil.family(("C03",))]
