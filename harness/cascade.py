"""Shared harness: the problem-table cascade of a set of streams (C01, C05, C06-pipeline part).

unit: Stream.__init__/_update_attributes, StreamCollection (add, sorted iteration, +),
create_problem_table_with_t_int, _sum_mcp_between_temperature_boundaries, problem_table_algorithm,
get_process_heat_cascade (incl. _shift_pt_to_set_heat_recovery and the constant-enthalpy projection rows
inserted by the real insert_temperature_interval), get_heat_recovery_target_from_pt, set_zonal_targets,
ProblemTable.pinch_temperatures.

Query families (DESIGN 1.3/4):
  T  -- supply/target temperatures and dT_cont symbolic, heat-capacity flowrates concrete
        (heat_flow = c*|Ts-Tt| is passed in, so CP = Q/dT divides exactly)
  Q  -- duties symbolic, temperatures concrete (templates)
"""
from __future__ import annotations

import itertools

from symx import h
from symx.runner import Family

EQ = 1e-9
GAP = 1e-4          # main claim: distinct breakpoints are >= GAP apart; the band below is region "near_tie"

FILES = ["OpenPinch/analysis/problem_table_analysis.py", "OpenPinch/classes/stream.py", "OpenPinch/classes/stream_collection.py",
         "OpenPinch/classes/problem_table.py", "OpenPinch/utils/miscellaneous.py"]
FUNCS = ["Stream.__init__", "Stream._update_attributes", "StreamCollection.add/__iter__/__add__", "create_problem_table_with_t_int",
         "_sum_mcp_between_temperature_boundaries", "problem_table_algorithm", "get_process_heat_cascade",
         "_shift_pt_to_set_heat_recovery", "_insert_temperature_interval_into_pt_at_constant_h", "_get_T_start_on_opposite_cc",
         "get_heat_recovery_target_from_pt", "set_zonal_targets", "ProblemTable.pinch_temperatures", "ProblemTable.insert_temperature_interval"]
SHIMS = ["OpenPinch.classes.stream", "OpenPinch.classes.stream_collection", "OpenPinch.classes.problem_table",
         "OpenPinch.analysis.problem_table_analysis", "OpenPinch.utils.miscellaneous", "OpenPinch.classes.zone",
         "OpenPinch.classes.energy_target"]


def make_streams(ctx, case):
    """Returns list of dicts(stream, cp, kind-independent bounds are read from the Stream objects)."""
    from OpenPinch.classes.stream import Stream
    out = []
    fam = case["family"]
    for i, spec in enumerate(case["streams"]):
        if fam == "T":
            cp = spec["cp"]
            dt = ctx.real(f"dt{i}", 0, 20) if spec.get("dt") is None else ctx.const(float(spec["dt"]))
            if spec.get("latent"):
                ts = ctx.real(f"ts{i}", 0, 500)
                q = ctx.const(float(cp) * 0.01 * spec["latent"])       # +: cold (absorbs), -: hot
                s = Stream(name=f"S{i}", t_supply=ts, t_target=ts, heat_flow=q, dt_cont=dt, htc=1.0)
                duty = ctx.const(float(cp) * 0.01)
            else:
                ts = ctx.real(f"ts{i}", 0, 500)
                tt = ctx.real(f"tt{i}", 0, 500)
                ctx.assume(h.disj([ts - tt >= 1, tt - ts >= 1]))
                duty = cp * h.vabs(ts - tt)
                s = Stream(name=f"S{i}", t_supply=ts, t_target=tt, heat_flow=duty, dt_cont=dt, htc=1.0)
        else:  # family Q: concrete temperatures, symbolic duty
            ts, tt, dt = float(spec["ts"]), float(spec["tt"]), float(spec["dt"])
            duty = ctx.real(f"q{i}", 1, 1e4)
            if ts == tt:
                q = duty if spec.get("latent", 1) > 0 else -duty
                s = Stream(name=f"S{i}", t_supply=ctx.const(ts), t_target=ctx.const(tt), heat_flow=q, dt_cont=ctx.const(dt), htc=1.0)
            else:
                s = Stream(name=f"S{i}", t_supply=ctx.const(ts), t_target=ctx.const(tt), heat_flow=duty, dt_cont=ctx.const(dt), htc=1.0)
        cpv = cp if fam == "T" else duty / (s.t_max - s.t_min)
        out.append({"s": s, "duty": duty, "hot": s.type == "Hot", "cp": cpv})
    return out


def content_below(ctx, st, x, shifted):
    """Exact heat content of stream st below temperature x on the given scale (non-forking).
    CP * clamp(x - lo, 0, hi - lo) with CP concrete (family T) or duty/concrete span (family Q)."""
    s = st["s"]
    lo, hi = (s.t_min_star, s.t_max_star) if shifted else (s.t_min, s.t_max)
    part = ctx.ite(x <= lo, 0.0, ctx.ite(x >= hi, hi - lo, x - lo))
    return st["cp"] * part


def bounds_of(sts, shifted):
    bs = []
    for st in sts:
        s = st["s"]
        bs += [s.t_min_star, s.t_max_star] if shifted else [s.t_min, s.t_max]
    return bs


def near_tie(bs, gap=GAP):
    conds = []
    for a in range(len(bs)):
        for b in range(a + 1, len(bs)):
            d = bs[a] - bs[b]
            conds.append(h.conj([h.neg(h.close(d, 0.0, 0.0)), d < gap, -d < gap]))
    return h.disj(conds)


def check_table(ctx, pt, sts, shifted, tag, want, Qr_known=None):
    from OpenPinch.lib.enums import PT
    EQ = 1e-8 * (1.0 + sum((st["duty"] for st in sts), ctx.const(0.0)))    # absolute + relative slack (reals: exact)
    T = h.col(pt, PT.T.value)
    Hh, Hc, Hn = h.col(pt, PT.H_HOT.value), h.col(pt, PT.H_COLD.value), h.col(pt, PT.H_NET.value)
    dT = h.col(pt, PT.DELTA_T.value)
    n = len(T)
    hot = [st for st in sts if st["hot"]]
    cold = [st for st in sts if not st["hot"]]
    totH = sum((st["duty"] for st in hot), ctx.const(0.0))
    totC = sum((st["duty"] for st in cold), ctx.const(0.0))
    if "C05" in want:
        conds = []
        for k in range(n):
            ch = sum((content_below(ctx, st, T[k], shifted) for st in hot), ctx.const(0.0))
            cc = sum((content_below(ctx, st, T[k], shifted) for st in cold), ctx.const(0.0))
            conds.append(h.close(Hh[k], ch, EQ))
            conds.append(h.close(Hc[k] - Hc[n - 1], cc, EQ))
            conds.append(h.close(Hn[k], Hc[k] - Hh[k], EQ))
            # non-negativity is stated for the shifted scale; on the real table it follows only when no contribution is negative (with a
            # negative dT_cont the shifted recovery exceeds what the real curves allow and the imposed offset makes them cross)
            if shifted or not any(bool(st["s"].dt_cont < 0) for st in sts):
                conds.append(Hn[k] >= -EQ)
        ctx.require(h.conj(conds), f"C05 {tag}: composite enthalpies equal the exact heat content of the streams at every row; net = cold - hot >= 0")
        ctx.require(h.conj([h.close(Hh[0], totH, EQ), h.close(Hc[0] - Hc[n - 1], totC, EQ), h.close(Hh[n - 1], 0.0, EQ)]),
                    f"C05 {tag}: curves span exactly the total stream duties")
        if shifted:
            ctx.require(h.disj(h.close(x, 0.0, EQ) for x in Hn), f"C05 {tag}: net curve touches zero")
        conds = [h.close(dT[k], T[k - 1] - T[k], EQ) for k in range(1, n)]
        conds += [T[k - 1] - T[k] > 0 for k in range(1, n)]
        for cp, dh, hc in ((PT.CP_HOT.value, PT.DELTA_H_HOT.value, Hh), (PT.CP_COLD.value, PT.DELTA_H_COLD.value, Hc),
                           (PT.CP_NET.value, PT.DELTA_H_NET.value, Hn)):
            CP, DH = h.col(pt, cp), h.col(pt, dh)
            for k in range(n):
                conds.append(h.close(DH[k], CP[k] * dT[k], EQ))
            for k in range(1, n):
                conds.append(h.close(hc[k - 1] - hc[k], DH[k], EQ))
        ctx.require(h.conj(conds), f"C05 {tag}: interval width, heat-capacity and enthalpy-change columns agree with T and the cumulative columns row by row")
    return totH, totC


def body(ctx, case, want=("C01", "C05", "C06")):
    from OpenPinch.analysis import problem_table_analysis as pta
    from OpenPinch.classes.stream_collection import StreamCollection
    from OpenPinch.lib.enums import PT
    sts = make_streams(ctx, case)
    hot, cold, alls = StreamCollection(), StreamCollection(), StreamCollection()
    for st in sts:
        (hot if st["hot"] else cold).add(st["s"])
        alls.add(st["s"])
    nh = sum(1 for st in sts if st["hot"])
    ctx.tag(f"hot={nh}/cold={len(sts) - nh}")
    scale = case.get("scale", "both")
    bs_star = bounds_of(sts, True)
    bs_real = bounds_of(sts, False)
    region_bs = (bs_star if scale in ("shifted", "both") else []) + (bs_real if scale in ("real", "both") else [])
    nt = near_tie(bs_star) if scale == "shifted" else (near_tie(bs_real) if scale == "real" else h.disj([near_tie(bs_star), near_tie(bs_real)]))
    if case.get("near_tie", "assume_none") == "assume_none":
        ctx.assume(h.neg(nt))
    else:
        ctx.region("near_tie", nt)
    pt = pt_real = None
    if scale in ("shifted", "both"):
        pt = pta.get_process_heat_cascade(hot, cold, alls, None, True)
        ctx.note("rows_shifted", len(pt))
    if scale == "real":
        pt_real = pta.get_process_heat_cascade(hot, cold, alls, None, False)
    if scale == "both":
        pt_real = pta.get_process_heat_cascade(hot, cold, alls, None, False, known_heat_recovery=pta.get_heat_recovery_target_from_pt(pt))
    totH = sum((st["duty"] for st in sts if st["hot"]), ctx.const(0.0))
    totC = sum((st["duty"] for st in sts if not st["hot"]), ctx.const(0.0))
    tot = totH + totC
    if pt is not None:
        check_table(ctx, pt, sts, True, "shifted table", want)
        Qh, Qc = pt.loc[0, PT.H_NET.value], pt.loc[-1, PT.H_NET.value]
        Qr = pta.get_heat_recovery_target_from_pt(pt)
        if "C01" in want:
            # independent cascade: D(b) = net heat deficit above shifted temperature b
            Ds = []
            for b in bs_star:
                above_c = sum((st["duty"] - content_below(ctx, st, b, True) for st in sts if not st["hot"]), ctx.const(0.0))
                above_h = sum((st["duty"] - content_below(ctx, st, b, True) for st in sts if st["hot"]), ctx.const(0.0))
                Ds.append(above_c - above_h)
            tol = 1e-6 * tot
            ref_ok = h.conj([Qh >= -tol] + [Qh >= D - tol for D in Ds] + [h.disj([h.close(Qh, 0.0, tol)] + [h.close(Qh, D, tol) for D in Ds])])
            ctx.require(ref_ok, "C01: Qh equals the largest net heat deficit above any shifted temperature (or zero)")
            ctx.require(h.conj([h.close(Qc, Qh - totC + totH, tol), h.close(Qr, totH - Qc, tol)]),
                        "C01: Qc = Qh - cold duty + hot duty and Qr = hot duty - Qc")
        if "C06" in want:
            th, tc = pt.pinch_temperatures()
            def residual(x):
                ac = sum((st["duty"] - content_below(ctx, st, x, True) for st in sts if not st["hot"]), ctx.const(0.0))
                ah = sum((st["duty"] - content_below(ctx, st, x, True) for st in sts if st["hot"]), ctx.const(0.0))
                return Qh - (ac - ah)
            # recorded finding F-C06-balanced: the residual is zero at EVERY breakpoint (balanced problem, Qh = Qc = 0)
            # (to within the code's own 1e-6 zero tolerance)
            ctx.region("all_zero", h.conj(h.close(residual(b), 0.0, 1e-6) for b in bs_star))
            if th is None or tc is None:
                ctx.tag("pinch absent")
                ctx.require(h.conj(h.neg(h.close(residual(b), 0.0, EQ)) for b in bs_star), "C06: pinch absent only when the residual has no zero at any shifted temperature")
            else:
                ctx.require(h.conj([h.close(residual(th), 0.0, 1e-6), h.close(residual(tc), 0.0, 1e-6), th >= tc]),
                            "C06: reported pinch temperatures are zeros of the exact residual, hot pinch not colder than cold pinch")
                zs = [(b, h.close(residual(b), 0.0, EQ)) for b in bs_star]
                conds = []
                for b, z in zs:
                    # a zero hotter than the hot pinch: only inside a zero run that reaches the hottest breakpoint
                    conds.append(h.implies(h.conj([z, b > th]), h.conj(h.implies(b2 >= th, z2) for b2, z2 in zs)))
                    conds.append(h.implies(h.conj([z, b < tc]), h.conj(h.implies(b2 <= tc, z2) for b2, z2 in zs)))
                ctx.require(h.conj(conds), "C06: every other zero of the residual lies between the pinches (or in the end-touching run of a threshold problem)")
    if pt_real is not None:
        check_table(ctx, pt_real, sts, False, "real table", want)
        if "C05" in want and pt is not None:
            tv = pta.set_zonal_targets(pt, pt_real)
            Qh, Qc = pt.loc[0, PT.H_NET.value], pt.loc[-1, PT.H_NET.value]
            Qr = pta.get_heat_recovery_target_from_pt(pt)
            ctx.require(h.conj([h.close(pt_real.loc[0, PT.H_NET.value], Qh, EQ), h.close(pt_real.loc[-1, PT.H_NET.value], Qc, EQ),
                                h.close(pta.get_heat_recovery_target_from_pt(pt_real), Qr, EQ)]),
                        "C05: the real-temperature table reports the same Qh, Qc and heat recovery as the shifted one")
    if pt is not None:
        ctx.note("Qh", pt.loc[0, PT.H_NET.value]); ctx.note("Qc", pt.loc[-1, PT.H_NET.value]); ctx.note("rows", len(pt))
    if pt_real is not None:
        ctx.note("rows_real", len(pt_real)); ctx.note("Hhot_real_top", pt_real.loc[0, PT.H_HOT.value])


def tol_c(ctx, v):
    return v


def set_like(xs):
    """distinct values by forking equality (only used for a tag)."""
    out = []
    for x in xs:
        if not any(bool(h.close(x, y, 0.0)) for y in out):
            out.append(x)
    return out


# ---------------------------------------------------------------------------------------------- cases
CP_VECTORS = {1: [(2,)], 2: [(2, 3), (3, 3), (5, 1)], 3: [(2, 3, 5), (1, 1, 1), (7, 2, 3)]}

Q_TEMPLATES = [
    # (ts, tt, dt) per stream: coincident, nested, isothermal, 1e-5-close bounds
    [(150, 60, 5), (50, 140, 5)],
    [(150, 60, 10), (140, 50, 10), (40, 160, 10)],
    [(100, 100, 5), (40, 120, 5)],
    [(200, 100, 0), (100, 200, 0)],
    [(120, 40, 5), (30, 110, 5), (30, 110, 5)],
    [(180, 80, 5), (70.00002, 170, 5)],
    [(180, 80, 5), (70.000004, 170, 5)],
    [(90, 30, 2.5), (95, 95, 2.5), (20, 80, 7.5)],
]


def cases_T(tier, seed, scale_opts=("shifted", "real")):
    out = []
    if tier == "quick":
        out.append({"family": "T", "scale": "shifted", "streams": [{"cp": 2}], "near_tie": "region"})
        out.append({"family": "T", "scale": "real", "streams": [{"cp": 2}], "near_tie": "region"})
        out.append({"family": "T", "scale": "shifted", "streams": [{"cp": 2, "latent": 1}, {"cp": 3}], "near_tie": "assume_none"})
        out.append({"family": "T", "scale": "shifted", "streams": [{"cp": 2, "latent": -1}, {"cp": 3}], "near_tie": "assume_none"})
        out.append({"family": "T", "scale": "shifted", "streams": [{"cp": 2}, {"cp": 3}], "near_tie": "assume_none"})
        out.append({"family": "T", "scale": "real", "streams": [{"cp": 2}, {"cp": 3}], "near_tie": "assume_none"})
        out.append({"family": "T", "scale": "both", "streams": [{"cp": 2, "dt": 5}, {"cp": 3, "dt": 5}], "near_tie": "assume_none"})
    else:
        for scale in ("shifted", "real"):
            out.append({"family": "T", "scale": scale, "streams": [{"cp": 2}], "near_tie": "region"})
            for cps in CP_VECTORS[2]:
                out.append({"family": "T", "scale": scale, "streams": [{"cp": c} for c in cps], "near_tie": "assume_none"})
            out.append({"family": "T", "scale": scale, "streams": [{"cp": 2, "latent": 1}, {"cp": 3}], "near_tie": "assume_none"})
            out.append({"family": "T", "scale": scale, "streams": [{"cp": 2, "latent": -1}, {"cp": 3}], "near_tie": "assume_none"})
        out.append({"family": "T", "scale": "shifted", "streams": [{"cp": 2}, {"cp": 3}], "near_tie": "region"})
        for dts in ((5, 5), (0, 10), (10, 2.5)):
            out.append({"family": "T", "scale": "both", "streams": [{"cp": 2, "dt": dts[0]}, {"cp": 3, "dt": dts[1]}], "near_tie": "assume_none"})
        for cps in CP_VECTORS[3][:2]:
            out.append({"family": "T", "scale": "shifted", "streams": [{"cp": c, "dt": d} for c, d in zip(cps, (5, 5, 10))], "near_tie": "assume_none"})
        out.append({"family": "T", "scale": "real", "streams": [{"cp": c, "dt": d} for c, d in zip((2, 3, 5), (5, 5, 10))], "near_tie": "assume_none"})
    return out


def cases_Q(tier, seed):
    out = []
    tpls = [Q_TEMPLATES[0], Q_TEMPLATES[2], Q_TEMPLATES[3]] if tier == "quick" else Q_TEMPLATES
    for tp in tpls:
        out.append({"family": "Q", "scale": "both", "near_tie": "region",
                    "streams": [{"ts": a, "tt": b, "dt": c} for a, b, c in tp]})
    out.append({"family": "Q", "scale": "both", "near_tie": "region",
                "streams": [{"ts": 100, "tt": 100, "dt": 5, "latent": -1}, {"ts": 40, "tt": 120, "dt": 5}]})
    # a NEGATIVE contribution is accepted by the library (no validation): the shifted curves then overlap more than the real ones
    out.append({"family": "Q", "scale": "both", "near_tie": "region",
                "streams": [{"ts": 200, "tt": 100, "dt": -10}, {"ts": 120, "tt": 220, "dt": 0}]})
    return out


BOUNDS_T = ("family T: 1-2 streams (thorough: up to 3 with concrete dT_cont) with supply/target temperatures in [0,500] C and dT_cont in [0,20] K "
            "as z3 reals (hot/cold mix, nesting and coincidences decided by the solver; |Ts-Tt| >= 1 K, or isothermal = 0.01 K latent stream), "
            "heat-capacity flowrates concrete {1,2,3,5,7}; shifted and real tables separately, both together with concrete dT_cont")
BOUNDS_Q = "family Q: duties in [1,1e4] kW as z3 reals on fixed temperature templates (coincident, nested, isothermal, 1e-5-close bounds, one negative dT_cont), both tables"
ASSUME = ["floats modelled as exact reals", "round(T, 6) is the identity (inputs on the 1e-6 K lattice)",
          "family T: heat-capacity flowrates concrete; family Q: temperatures concrete (keeps every query linear)",
          "main claim: distinct breakpoints are >= 1e-4 K apart; the band 0 < gap < 1e-4 is the recorded region near_tie"]


def families(want, prop):
    def mk_body(ctx, case):
        return body(ctx, case, want)
    return [
        Family(name="cascade_T", cases=cases_T, body=mk_body, functions=FUNCS, files=FILES, bounds=BOUNDS_T, assumptions=ASSUME,
               shim_modules=SHIMS, split_depth=9, snap="micro", validate_every=6,
               reach=["hot=1/cold=1", "hot=2/cold=0", "hot=0/cold=2"]),
        Family(name="cascade_Q", cases=cases_Q, body=mk_body, functions=FUNCS, files=FILES, bounds=BOUNDS_Q, assumptions=ASSUME,
               shim_modules=SHIMS, split_depth=4, snap="dyadic", validate_every=1, reach=[]),
    ]
