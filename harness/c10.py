"""C10 -- zone-tree construction conserves the streams.

unit: prepare_problem, _validate_input_data, _validate_zone_tree_structure (tree synthesis, label rewriting),
_rewrite_stream_zones_from_tree, _create_nested_zones, _get_process_streams_in_each_subzone, _create_process_stream,
Zone.add_zone, Zone.import_hot_and_cold_streams_from_sub_zones, StreamCollection.add, _get_hot_and_cold_utilities,
_set_utilities_for_zone_and_subzones -- the real functions, driven with pydantic models built by model_construct.

Duties are z3 reals, so "the hot/cold duty of every zone equals that of the streams labelled into it" is an identity
between linear forms that the solver must be unable to break; labels and names are finite-domain symbolic (solver
choices from pools built to collide: suffix/prefix labels, labels equal to generated unit-operation names, the root
name, whitespace, duplicate stream names).
"""
from __future__ import annotations

from symx import h
from symx.runner import Family

PROPERTY = "C10"
LEVEL = "model_checking"
FILES = ["OpenPinch/analysis/data_preparation.py", "OpenPinch/classes/zone.py", "OpenPinch/classes/stream_collection.py", "OpenPinch/classes/stream.py"]
FUNCS = ["prepare_problem", "_validate_input_data", "_validate_zone_tree_structure", "_rewrite_stream_zones_from_tree", "_get_validated_zone_info",
         "_create_nested_zones", "_get_process_streams_in_each_subzone", "_create_process_stream", "Zone.add_zone",
         "Zone.import_hot_and_cold_streams_from_sub_zones", "StreamCollection.add", "_get_hot_and_cold_utilities", "_set_utilities_for_zone_and_subzones"]

LABELS = ["A", "B", "A/B", "B/A", "A/O1", "O1", "A/A", " A / B ", "Site", "Site/A", "A/B/O1", "B/O1", "A ", " B"]
NAMES = ["S", "S_1"]
TEMPS = [(150.0, 60.0), (50.0, 140.0), (200.0, 120.0), (30.0, 90.0)]

TREE = ("Site", "Site", [("A", "Process Zone", [("U1", "Zone", []), ("U2", "Zone", [])]),
                         ("B", "Process Zone", [("U1", "Zone", [])])])
TREE_LABELS = {"A/U1": ("Site", "A", "U1"), "A/U2": ("Site", "A", "U2"), "B/U1": ("Site", "B", "U1"), "Site/A/U1": ("Site", "A", "U1"),
               "U2": ("Site", "A", "U2"), "B": ("Site", "B"), "A": ("Site", "A"), "Site/B": ("Site", "B"), " A / U1 ": ("Site", "A", "U1")}


def _mk_tree(t):
    from OpenPinch.lib.schema import ZoneTreeSchema
    name, typ, ch = t
    return ZoneTreeSchema(name=name, type=typ, children=[_mk_tree(c) for c in ch] or None)


def _walk(zone, path=()):
    p = path + (zone.name,)
    yield p, zone
    for z in zone.subzones.values():
        yield from _walk(z, p)


def body(ctx, case):
    from harness.pipeline import SchemaStub
    from OpenPinch.analysis import data_preparation as dp
    from OpenPinch.lib.schema import StreamSchema
    n = case["n"]
    use_tree = case.get("tree", False)
    pool = list(TREE_LABELS) if use_tree else LABELS
    specs = []
    for i in range(n):
        lab = pool[ctx.choice(f"lab{i}", len(pool))]
        nm = NAMES[ctx.choice(f"name{i}", len(NAMES))]
        ts, tt = TEMPS[i % len(TEMPS)]
        q = ctx.real(f"q{i}", 1, 1e4)
        specs.append({"label": lab, "name": nm, "ts": ts, "tt": tt, "q": q, "hot": ts > tt})
    schemas = [StreamSchema.model_construct(zone=s["label"], name=s["name"], t_supply=ctx.const(s["ts"]), t_target=ctx.const(s["tt"]),
                                            heat_flow=s["q"], dt_cont=ctx.const(5.0), htc=ctx.const(1.0), active=True) for s in specs]
    old = dp.UtilitySchema
    dp.UtilitySchema = SchemaStub
    try:
        site = dp.prepare_problem(streams=schemas, utilities=[], options=None, project_name="Site",
                                  zone_tree=_mk_tree(TREE) if use_tree else None)
    finally:
        dp.UtilitySchema = old
    # intended zone of every stream
    for s in specs:
        if use_tree:
            s["path"] = TREE_LABELS[s["label"]]
        else:
            # nested labels are trimmed per component by the library; a flat label is one zone name as written (blanks included)
            s["path"] = ("Site",) + (tuple(c.strip() for c in s["label"].split("/") if c.strip()) if "/" in s["label"] else (s["label"],))
    zones = list(_walk(site))
    leaves = [(p, z) for p, z in zones if not z.subzones]
    internal = {p for p, z in zones if z.subzones}
    # recorded finding F-C10-internal: a label that names a NON-leaf zone of a user-supplied tree
    ctx.region("label_names_internal_node", bool(use_tree and any(s["path"] in internal for s in specs)))
    if len({s["label"].strip() for s in specs}) < len(specs):
        ctx.tag("two streams share a label")
    labs = [tuple(s["path"][1:]) for s in specs]
    if any(a != b and len(a) < len(b) and b[-len(a):] == a for a in labs for b in labs):
        ctx.tag("one label is a suffix of another")
    if any(len(a) < len(b) and b[:len(a)] == a for a in labs for b in labs):
        ctx.tag("one label is a prefix of another")
    ctx.require(site.name == "Site", "root zone keeps its name")
    conds, count_ok = [], True
    for p, z in zones:
        if use_tree:
            exp = [s for s in specs if s["path"][:len(p)] == p]
        elif not z.subzones and len(p) >= 2 and z.identifier == "Unit Operation":
            exp = None      # generated unit-operation leaf: checked below (exactly one stream each)
        else:
            exp = [s for s in specs if s["path"][:len(p)] == p]
        got_h = sum((st.heat_flow for st in z.hot_streams), ctx.const(0.0))
        got_c = sum((st.heat_flow for st in z.cold_streams), ctx.const(0.0))
        if exp is not None:
            eh = sum((s["q"] for s in exp if s["hot"]), ctx.const(0.0))
            ec = sum((s["q"] for s in exp if not s["hot"]), ctx.const(0.0))
            conds.append(h.close(got_h, eh, 1e-9))
            conds.append(h.close(got_c, ec, 1e-9))
            if len(z.hot_streams) + len(z.cold_streams) != len(exp):
                count_ok = False
    ctx.require(h.conj(conds), "hot and cold duty of every zone equal those of the streams labelled into it (nothing dropped, duplicated or misplaced)")
    ctx.require(count_ok, "stream count of every zone equals the number of streams labelled into it")
    # every input stream sits in exactly one leaf-most zone: its duty appears exactly once among zones without sub-zones ...
    leaf_h = sum((st.heat_flow for p, z in leaves for st in z.hot_streams), ctx.const(0.0))
    leaf_c = sum((st.heat_flow for p, z in leaves for st in z.cold_streams), ctx.const(0.0))
    if not use_tree:
        ctx.require(h.conj([h.close(leaf_h, sum((s["q"] for s in specs if s["hot"]), ctx.const(0.0)), 1e-9),
                            h.close(leaf_c, sum((s["q"] for s in specs if not s["hot"]), ctx.const(0.0)), 1e-9)]),
                    "every stream belongs to exactly one leaf zone")
        ops = [(p, z) for p, z in leaves if z.identifier == "Unit Operation"]
        ctx.require(len(ops) == len(specs) and all(len(z.hot_streams) + len(z.cold_streams) == 1 for p, z in ops),
                    "one generated unit-operation leaf per stream, holding exactly that stream")
    # no Stream object shared between sibling sub-trees: object identity per leaf
    seen = {}
    shared = False
    for p, z in leaves:
        for st in list(z.hot_streams) + list(z.cold_streams):
            if id(st) in seen and seen[id(st)] != p:
                shared = True
            seen[id(st)] = p
    ctx.require(not shared, "no stream object is shared between two leaves")
    # utilities: every zone has its own independent copies
    uids = [id(u) for p, z in zones for u in list(z.hot_utilities) + list(z.cold_utilities)]
    per_zone = [len(z.hot_utilities) + len(z.cold_utilities) for p, z in zones]
    ctx.require(len(set(uids)) == len(uids) and len(set(per_zone)) == 1 and per_zone[0] >= 2, "every zone receives its own independent copy of every utility")
    ctx.note("zones", len(zones)); ctx.note("leaves", len(leaves)); ctx.note("site_hot", sum((st.heat_flow for st in site.hot_streams), ctx.const(0.0)))


def cases(tier, seed):
    if tier == "quick":
        return [{"n": 2}, {"n": 2, "tree": True}]
    return [{"n": 2}, {"n": 3}, {"n": 2, "tree": True}, {"n": 3, "tree": True}]


FAMILIES = [
    Family(name="labels", cases=cases, body=body, functions=FUNCS, files=FILES,
           bounds="2 streams (thorough: 3) with duties z3 reals in [1,1e4] and concrete temperatures; zone label of every stream a solver choice from a 14-label pool "
                  "(flat, nested to depth 3, suffix/prefix pairs, generated unit-operation names, the root name, whitespace) and its name from {S, S_1}; without a zone tree, "
                  "and with a fixed user tree Site->{A->{U1,U2}, B->{U1}} and 9 unambiguous label forms",
           assumptions=["labels and names are finite-domain symbolic (pools), not unbounded strings",
                        "pydantic schemas are built with model_construct (no validation) so that duties can be symbolic; UtilitySchema replaced by an attribute bag"],
           shim_modules=None, snap="dyadic", validate_every=7, split_paths=40,
           reach=["two streams share a label", "one label is a suffix of another", "one label is a prefix of another"]),
]
