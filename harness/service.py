"""Shared helper: drive the REAL main.pinch_analysis_service symbolically.

pydantic-core rejects symbolic numbers, so while a symbolic (or lifted-constant) run is active three names are rebound
to pass-through stand-ins -- main.TargetInput, main.TargetOutput, data_preparation.UtilitySchema -- and, in symbolic mode
only, graph_data.clean_composite_curve becomes the identity (its own obligations are C13's; without the stub its
collinearity branches multiply every pipeline path).  In concrete mode (replay / differential validation) nothing is
stubbed: the real service with real pydantic validation runs on floats.
"""
from __future__ import annotations

import copy

from symx import h
from symx.core import SymBool, SymReal

from harness.pipeline import SchemaStub


class _InStub:
    """Stand-in for TargetInput: model_validate returns an instance as is (pydantic's behaviour) and builds new
    model_construct-ed objects from a dict."""

    @staticmethod
    def model_validate(data):
        from OpenPinch.lib.schema import StreamSchema, TargetInput, UtilitySchema, ZoneTreeSchema
        if isinstance(data, TargetInput):
            return data
        streams = [StreamSchema.model_construct(**{"active": True, **s}) for s in data.get("streams", [])]
        utils = [UtilitySchema.model_construct(**{"active": True, "heat_flow": None, **u}) for u in data.get("utilities", [])]
        zt = data.get("zone_tree")
        if isinstance(zt, dict):
            zt = ZoneTreeSchema.model_validate(zt)
        return TargetInput.model_construct(streams=streams, utilities=utils, options=copy.deepcopy(data.get("options")), zone_tree=zt)


class _OutStub:
    @staticmethod
    def model_validate(d):
        return d


def make_input(ctx, spec, form):
    """spec: {"streams": [dict], "utilities": [dict], "options": dict}; numbers may be SymReal.  form: 'dict' | 'model'."""
    from OpenPinch.lib.schema import StreamSchema, TargetInput, UtilitySchema
    d = {"streams": [dict(s) for s in spec["streams"]], "utilities": [dict(u) for u in spec.get("utilities", [])],
         "options": dict(spec.get("options") or {})}
    if spec.get("zone_tree") is not None:
        d["zone_tree"] = copy.deepcopy(spec["zone_tree"])
    if form == "dict":
        return d
    if ctx.mode == "concrete":
        return TargetInput.model_validate(d)
    return _InStub.model_validate(d)


def call_service(ctx, data, project_name="Site"):
    from OpenPinch import main
    if ctx.mode == "concrete":
        return main.pinch_analysis_service(data, project_name=project_name)
    from OpenPinch.analysis import data_preparation as dp
    from OpenPinch.analysis import graph_data as gd
    saved = (main.TargetInput, main.TargetOutput, dp.UtilitySchema, gd.clean_composite_curve)
    main.TargetInput, main.TargetOutput, dp.UtilitySchema = _InStub, _OutStub, SchemaStub
    if ctx.mode == "sym":
        real_clean = gd.clean_composite_curve

        def _identity_clean(y, x):
            xs = list(x)
            if any(isinstance(v, float) and v != v for v in xs):
                return real_clean(y, x)          # unpopulated (NaN) columns: the real function returns an empty curve
            return list(y), xs
        gd.clean_composite_curve = _identity_clean
    try:
        return main.pinch_analysis_service(data, project_name=project_name)
    finally:
        main.TargetInput, main.TargetOutput, dp.UtilitySchema, gd.clean_composite_curve = saved


def plain(x, graphs="keys"):
    """Service result / input object -> nested dict/list structure with numeric leaves (SymReal | float)."""
    from pydantic import BaseModel
    if isinstance(x, BaseModel):
        out = {}
        for k in type(x).model_fields:
            out[k] = plain(getattr(x, k, None), graphs)
        return out
    if isinstance(x, dict):
        return {str(k): plain(v, graphs) for k, v in x.items()}
    if isinstance(x, (list, tuple)):
        return [plain(v, graphs) for v in x]
    if hasattr(x, "value") and x.__class__.__name__ in ("StreamType",):
        return x.value
    return x


def same(a, b, tol=1e-9, path=""):
    """Structural equality as a non-forking condition (numeric leaves within tol)."""
    if isinstance(a, dict) and isinstance(b, dict):
        if set(a.keys()) != set(b.keys()):
            return False
        return h.conj(same(a[k], b[k], tol, path + "/" + str(k)) for k in a)
    if isinstance(a, list) and isinstance(b, list):
        if len(a) != len(b):
            return False
        return h.conj(same(x, y, tol, path + "[]") for x, y in zip(a, b))
    num = (int, float, SymReal)
    if isinstance(a, bool) or isinstance(b, bool):
        return a is b or a == b
    if isinstance(a, num) and isinstance(b, num):
        return h.close(a, b, tol)
    if isinstance(a, SymBool) or isinstance(b, SymBool):
        return a == b
    return a == b


def result_view(res):
    """What TargetOutput carries: name, targets, graphs (the raw dictionary also holds the default-utility Stream objects)."""
    p = plain(res)
    return {k: p.get(k) for k in ("name", "targets", "graphs")}


def record_list(res):
    p = plain(res)
    return p["targets"]


def graph_keys(res):
    p = plain(res)
    return sorted((p.get("graphs") or {}).keys())
