"""C08 -- inserting temperature intervals never changes any curve.

unit: ProblemTable.insert_temperature_interval and everything below it, executed symbolically from an
arbitrary *valid* table (representation invariant assumed, re-established => induction step over
call sequences) with symbolic row temperatures and symbolic insertion requests.
"""
from __future__ import annotations

import itertools

import numpy as np

from symx import h
from symx.runner import Family

PROPERTY = "C08"
LEVEL = "model_checking"
TOL = 1e-6
EQ = 1e-9

FILES = ["OpenPinch/classes/problem_table.py"]
FUNCS = ["ProblemTable.insert_temperature_interval", "ProblemTable._Ts_needing_insertion",
         "ProblemTable._categorise_insertion_targets", "ProblemTable._dedupe_monotonic",
         "ProblemTable._group_middle_inserts", "ProblemTable._apply_interval_map",
         "ProblemTable._append_placeholders", "ProblemTable._rebuild_edge_block",
         "ProblemTable._build_top_or_bottom_block", "ProblemTable._populate_from_neighbor",
         "ProblemTable._insert_mid_block", "ProblemTable._build_mid_block",
         "ProblemTable._initialise_insert_rows", "ProblemTable._interpolate_heat_columns",
         "ProblemTable._adjust_bottom_row", "ProblemTable._update_heat_capacity_pairs"]


def build_table(ctx, n, cph, cpc, extra, tmin_gap=2e-6):
    """Arbitrary valid n-row table: T0 and gaps symbolic, per-interval CPs concrete.

    Returns (pt, ref) where ref = dict of column -> (values list, slopes list) for the cumulative
    columns (slopes = dH/dT per interval, concrete, so the reference interpolant is linear)."""
    from OpenPinch.classes.problem_table import ProblemTable
    from OpenPinch.lib.enums import PT
    T0 = ctx.real("T0", 0, 500)
    gaps = [ctx.real(f"g{i}", tmin_gap, 100) for i in range(n - 1)]
    Ts = [T0]
    for g in gaps:
        Ts.append(Ts[-1] - g)
    dT = [ctx.const(0.0)] + gaps
    h_off = ctx.real("Hnet0", 0, 1e4)
    c_off = ctx.real("Hcold_off", 0, 1e4)
    cph = [0] + list(cph)
    cpc = [0] + list(cpc)
    cpn = [c - hh for c, hh in zip(cpc, cph)]
    dHh = [cph[i] * dT[i] for i in range(n)]
    dHc = [cpc[i] * dT[i] for i in range(n)]
    dHn = [cpn[i] * dT[i] for i in range(n)]
    Hh = [None] * n
    Hc = [None] * n
    Hn = [None] * n
    Hh[n - 1] = ctx.const(0.0)
    Hc[n - 1] = c_off
    for k in range(n - 2, -1, -1):
        Hh[k] = Hh[k + 1] + dHh[k + 1]
        Hc[k] = Hc[k + 1] + dHc[k + 1]
    Hn[0] = h_off
    for k in range(1, n):
        Hn[k] = Hn[k - 1] - dHn[k]
    # one more cumulative column with its own (concrete) slopes, to exercise a column that is not tied to CPs
    ex_off = ctx.real("Hx0", 0, 1e4)
    Hx = [None] * n
    Hx[n - 1] = ex_off
    for k in range(n - 2, -1, -1):
        Hx[k] = Hx[k + 1] + extra[k] * dT[k + 1]
    data = {
        PT.T.value: Ts, PT.DELTA_T.value: dT,
        PT.CP_HOT.value: [ctx.const(float(c)) for c in cph], PT.DELTA_H_HOT.value: dHh, PT.H_HOT.value: Hh,
        PT.CP_COLD.value: [ctx.const(float(c)) for c in cpc], PT.DELTA_H_COLD.value: dHc, PT.H_COLD.value: Hc,
        PT.CP_NET.value: [ctx.const(float(c)) for c in cpn], PT.DELTA_H_NET.value: dHn, PT.H_NET.value: Hn,
        PT.H_NET_A.value: Hx,
        PT.RCP_HOT.value: [ctx.const(float(c)) * 0.5 for c in cph],
    }
    pt = ProblemTable(data)
    ref = {
        PT.H_HOT.value: (Hh, [cph[k + 1] for k in range(n - 1)]),
        PT.H_COLD.value: (Hc, [cpc[k + 1] for k in range(n - 1)]),
        PT.H_NET.value: (Hn, [-cpn[k + 1] for k in range(n - 1)]),   # dH_net/dT = -(CP_net) going down... see below
        PT.H_NET_A.value: (Hx, [extra[k] for k in range(n - 1)]),
    }
    # slope convention used by pw_interp_desc: H(x) = H[k+1] + s_k * (x - T[k+1]);  H[k] - H[k+1] = s_k * gap_k
    # H_hot: H[k]-H[k+1] = cph[k+1]*gap  -> s = cph[k+1];  H_net: H[k]-H[k+1] = +dHn[k+1] = cpn[k+1]*gap -> s = cpn[k+1]
    ref[PT.H_NET.value] = (Hn, [cpn[k + 1] for k in range(n - 1)])
    return pt, Ts, ref


def check_table(ctx, pt, Ts_old, ref, tag):
    """Representation invariant + curve preservation of `pt` against the reference curves."""
    from OpenPinch.lib.enums import PT
    T = h.col(pt, PT.T.value)
    n = len(T)
    ctx.require(h.conj(T[k] - T[k + 1] > TOL for k in range(n - 1)), f"{tag}: rows strictly descending by more than tol")
    dT = h.col(pt, PT.DELTA_T.value)
    # row 0 has no row above: the statement is silent about its width (the repo's own test pins T0-T1 after a
    # single top insertion, the cascade writes 0); its enthalpy change must still be CP*width (checked below).
    ctx.require(h.conj(h.close(dT[k], T[k - 1] - T[k], EQ) for k in range(1, n)),
                f"{tag}: interval width equals gap to the row above")
    conds = []
    for cname, (Hs, slopes) in ref.items():
        new = h.col(pt, cname)
        for k in range(n):
            conds.append(h.close(new[k], h.pw_interp_desc(Ts_old, Hs, T[k], slopes), EQ))
    ctx.require(h.conj(conds), f"{tag}: cumulative curves unchanged as functions of temperature")
    conds = []
    for cp, dh, hc, sign in ((PT.CP_HOT.value, PT.DELTA_H_HOT.value, PT.H_HOT.value, 1),
                             (PT.CP_COLD.value, PT.DELTA_H_COLD.value, PT.H_COLD.value, 1),
                             (PT.CP_NET.value, PT.DELTA_H_NET.value, PT.H_NET.value, 1)):
        CP = h.col(pt, cp)
        DH = h.col(pt, dh)
        HC = h.col(pt, hc)
        for k in range(n):
            conds.append(h.close(DH[k], CP[k] * dT[k], EQ))
        for k in range(1, n):
            conds.append(h.close(HC[k - 1] - HC[k], sign * DH[k], EQ))
    ctx.require(h.conj(conds), f"{tag}: enthalpy change equals heat capacity times width and matches the cumulative column")
    # untouched NaN columns stay NaN
    nanc = h.col(pt, PT.H_NET_V.value)
    ctx.require(all(h.is_nan(v) for v in nanc), f"{tag}: empty column stays empty")


def body(ctx, case):
    n, m = case["n"], case["m"]
    pt, Ts, ref = build_table(ctx, n, case["cph"], case["cpc"], case["extra"])
    calls = case["calls"]
    xs_all = []
    for ci, cnt in enumerate(calls):
        xs = [ctx.real(f"x{ci}_{j}", -100, 700) for j in range(cnt)]
        T_before = h.col(pt, "T")
        n_before = len(pt)
        ret = pt.insert_temperature_interval(xs if cnt != 1 or case.get("as_list", True) else xs[0])
        T_after = h.col(pt, "T")
        ctx.require(ret == len(pt) - n_before, f"call{ci}: return value equals rows added")
        # every requested temperature is now represented, every old row kept, every new row was requested
        ctx.require(h.conj(h.disj(h.close(x, t, TOL) for t in T_after) for x in xs),
                    f"call{ci}: every requested temperature present within tol")
        ctx.require(h.conj(h.disj(h.close(t0, t, 0.0) for t in T_after) for t0 in T_before),
                    f"call{ci}: old rows kept")
        ctx.require(h.conj(h.disj([h.close(t, t0, 0.0) for t0 in T_before] + [h.close(t, x, 0.0) for x in xs])
                           for t in T_after), f"call{ci}: every row is an old row or a requested temperature")
        if len(pt) > n_before:
            ctx.tag("inserted")
        if len(pt) - n_before >= 2:
            ctx.tag("inserted>=2")
        check_table(ctx, pt, Ts, ref, f"call{ci}")
        xs_all += xs
    # re-inserting everything adds nothing
    before = np.array(pt.data, copy=True)
    ret = pt.insert_temperature_interval(list(xs_all))
    ctx.require(ret == 0 and len(pt) == before.shape[0], "re-insertion adds nothing")


def cases(tier, seed):
    out = []
    cp_sets3 = [((2, 0), (0, 3), (1, -1)), ((1, 2), (3, 1), (0, 2)), ((0, 0), (5, 5), (1, 1))]
    if tier == "quick":
        for cph, cpc, extra in cp_sets3:
            out.append({"n": 3, "m": 2, "calls": [2], "cph": cph, "cpc": cpc, "extra": extra})
        out.append({"n": 3, "m": 2, "calls": [1, 1], "cph": (2, 1), "cpc": (1, 3), "extra": (1, 2)})
        out.append({"n": 2, "m": 3, "calls": [3], "cph": (2,), "cpc": (5,), "extra": (-1,)})
        out.append({"n": 4, "m": 1, "calls": [1], "cph": (2, 0, 1), "cpc": (0, 3, 1), "extra": (1, 0, 2), "as_list": False})
    else:
        for cph, cpc, extra in cp_sets3:
            out.append({"n": 3, "m": 3, "calls": [3], "cph": cph, "cpc": cpc, "extra": extra})
            out.append({"n": 3, "m": 3, "calls": [2, 1], "cph": cph, "cpc": cpc, "extra": extra})
            out.append({"n": 3, "m": 3, "calls": [1, 2], "cph": cph, "cpc": cpc, "extra": extra})
        out.append({"n": 4, "m": 3, "calls": [3], "cph": (2, 0, 1), "cpc": (0, 3, 1), "extra": (1, 0, 2)})
        out.append({"n": 4, "m": 2, "calls": [1, 1], "cph": (1, 2, 3), "cpc": (3, 2, 1), "extra": (1, -1, 2)})
        out.append({"n": 2, "m": 4, "calls": [4], "cph": (2,), "cpc": (5,), "extra": (-1,)})
        out.append({"n": 5, "m": 2, "calls": [2], "cph": (2, 0, 1, 3), "cpc": (0, 3, 1, 1), "extra": (1, 0, 2, 1)})
    return out


FAMILIES = [
    Family(
        name="insert",
        cases=cases, body=body, functions=FUNCS, files=FILES,
        bounds="tables of 2-5 rows (T0 in [0,500], gaps in [2e-6,100] K symbolic; per-interval CP_hot/CP_cold/extra-curve "
               "slopes concrete from fixed vectors; one populated non-CP curve column, one rCP column, all other columns NaN); "
               "1-4 symbolic insertion temperatures in [-100,700] in one call or split over 2 calls, followed by a re-insertion call",
        assumptions=["floats modelled as exact reals", "per-interval heat-capacity flowrates are concrete (keeps interpolation linear)",
                     "pre-state satisfies the table invariant (T descending by > tol, dT = gap above, dH = CP*dT, cumulative columns consistent, CP of row 0 = 0)"],
        shim_modules=["OpenPinch.classes.problem_table"],
        split_depth=0, reach=["inserted", "inserted>=2"],
    ),
]
