"""C04 -- see harness/pipeline.py (shared site-targeting harness)."""
from harness import gccutil, pipeline

PROPERTY = "C04"
LEVEL = "model_checking"
FAMILIES = pipeline.families(("C04",)) + [gccutil.family(("C04",))]
