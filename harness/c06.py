"""C06 -- reported pinch temperatures are where the cascade is pinched.

family `column`: ProblemTable.pinch_idx / pinch_temperatures / EnergyTarget.serialize_json (pinch part)
on ARBITRARY residual columns: n rows, temperatures symbolic descending, H symbolic >= 0, each entry
either exactly 0 or >= 2e-6 (just above the code's 1e-6 zero tolerance).
The link "table residual == exact cascade residual at every shifted temperature" is C05's per-row
obligation (harness c05); together they give the statement for the pipeline.
"""
from __future__ import annotations

from symx import h
from symx.runner import Family

PROPERTY = "C06"
LEVEL = "model_checking"
EQ = 1e-9
FILES = ["OpenPinch/classes/problem_table.py", "OpenPinch/classes/energy_target.py"]
FUNCS = ["ProblemTable.pinch_idx", "ProblemTable.pinch_temperatures", "EnergyTarget.serialize_json (temp_pinch)"]


def body(ctx, case):
    from OpenPinch.classes.energy_target import EnergyTarget
    from OpenPinch.classes.problem_table import ProblemTable
    from OpenPinch.lib.enums import PT
    n = case["n"]
    T0 = ctx.real("T0", 0, 500)
    Ts = [T0]
    for i in range(n - 1):
        Ts.append(Ts[-1] - ctx.real(f"g{i}", 1e-3, 100))
    Hs = [ctx.real(f"H{i}", 0, 1e4) for i in range(n)]
    for x in Hs:
        ctx.assume(h.disj([h.close(x, 0.0, 0.0), x >= 2e-6]))
    ctx.region("all_zero", h.conj(h.close(x, 0.0, 0.0) for x in Hs))
    pt = ProblemTable({PT.T.value: list(Ts), PT.H_NET.value: list(Hs)})
    rh, rc, valid = pt.pinch_idx(PT.H_NET.value)
    th, tc = pt.pinch_temperatures()
    zero = [h.close(x, 0.0, 0.0) for x in Hs]
    any_zero = h.disj(zero)
    ctx.require(h.implies(h.neg(any_zero), not valid) if True else True, "no zero residual => pinch absent")
    ctx.require(h.implies(any_zero, bool(valid)), "a zero residual exists => a pinch is reported")
    if valid:
        ctx.tag("pinch reported")
        rh, rc = int(rh), int(rc)
        if rh < rc:
            ctx.tag("hot and cold pinch differ")
        ctx.require(h.conj([zero[rh], zero[rc]]), "reported rows are zeros of the residual")
        ctx.require(rh <= rc and h.conj([th >= tc]), "hot pinch not colder than cold pinch")
        ctx.require(h.conj([h.close(th, Ts[rh], 0.0), h.close(tc, Ts[rc], 0.0)]), "pinch temperatures are the table temperatures of those rows")
        conds = []
        for j in range(n):
            if j < rh:
                # a zero above the hot pinch is only allowed inside the zero run touching the top end, whose
                # process-side end is the reported hot pinch
                conds.append(h.implies(zero[j], h.conj(zero[k] for k in range(0, rh + 1))))
            if j > rc:
                conds.append(h.implies(zero[j], h.conj(zero[k] for k in range(rc, n))))
        # threshold clauses: run touching an end => reported pinch is its process-side end
        conds.append(h.implies(zero[0], h.conj([h.conj(zero[k] for k in range(0, rh + 1))] + ([h.neg(zero[rh + 1])] if rh + 1 < n else []))))
        conds.append(h.implies(zero[n - 1], h.conj([h.conj(zero[k] for k in range(rc, n))] + ([h.neg(zero[rc - 1])] if rc - 1 >= 0 else []))))
        # ordinary case: hot pinch is the hottest zero, cold pinch the coldest zero
        conds.append(h.implies(h.neg(zero[0]), h.conj(h.neg(zero[k]) for k in range(0, rh))))
        conds.append(h.implies(h.neg(zero[n - 1]), h.conj(h.neg(zero[k]) for k in range(rc + 1, n))))
        ctx.require(h.conj(conds), "every other zero lies between the pinches (or in the end-touching run of a threshold problem)")
        # serialisation
        et = EnergyTarget("Z/Direct Integration")
        et.hot_pinch, et.cold_pinch = th, tc
        tp = et.serialize_json()["temp_pinch"]
        ctx.require(h.close(tp.get("cold_temp"), tc, 0.0), "serialised cold pinch")
        if "hot_temp" in tp and tp["hot_temp"] is not None:
            ctx.require(h.close(tp["hot_temp"], th, 0.0), "serialised hot pinch")
        else:
            ctx.require(h.close(th, tc, 1e-6), "hot pinch omitted only when it coincides with the cold pinch")
    else:
        ctx.tag("pinch absent")
        ctx.require(th is None and tc is None, "absent pinch reported as (None, None)")
    ctx.note("rh", int(rh)); ctx.note("rc", int(rc)); ctx.note("valid", bool(valid))


def cases(tier, seed):
    ns = (2, 3, 4, 5, 6) if tier == "quick" else (2, 3, 4, 5, 6, 7, 8, 9)
    return [{"n": n} for n in ns]


FAMILIES = [
    Family(
        name="column", cases=cases, body=body, functions=FUNCS, files=FILES,
        bounds="residual columns of 2-6 rows (thorough: 2-9), every entry a z3 real that is 0 or >= 2e-6; temperatures symbolic, descending by >= 1e-3 K",
        assumptions=["floats modelled as exact reals", "residual entries in the open band (0, 2e-6) are outside the claim (the code treats |H| < 1e-6 as zero)"],
        shim_modules=["OpenPinch.classes.problem_table", "OpenPinch.classes.energy_target"],
        reach=["pinch reported", "pinch absent", "hot and cold pinch differ"], split_depth=4,
    ),
]

# pipeline part: pinch temperatures reported for real stream sets are zeros of the exact cascade residual
from harness import cascade as _cascade  # noqa: E402


def _cases_T(tier, seed):
    return [c for c in _cascade.cases_T(tier, seed) if c["scale"] == "shifted"]


def _cases_Q(tier, seed):
    return [dict(c, scale="shifted") for c in _cascade.cases_Q(tier, seed)]


for _f in _cascade.families(("C06",), "C06"):
    _f.cases = _cases_T if _f.name == "cascade_T" else _cases_Q
    _f.reach = ["hot=1/cold=1"] if _f.name == "cascade_T" else []
    FAMILIES.append(_f)
