"""C17 -- curve simplification stays within its tolerance.

family `clean`: clean_composite_curve_ends / clean_composite_curve on polylines with concrete temperatures (y) and
symbolic enthalpies (x, monotone, flat runs solver-chosen): the kept points are original points in order, the first and
last non-flat points are kept, and the piecewise-linear function through the kept points passes within 1e-6 (in
temperature) of every removed point of the non-flat extent.

family `rdp`: _rdp and get_piecewise_data_points (<= 10 points: no SLSQP refinement is run by the code) on polylines
whose abscissae are concrete and ordinates symbolic: ends kept, order kept, kept points are original points, every
dropped point lies within epsilon (perpendicular distance) of the chord it was dropped under; ||chord|| is an
uninterpreted sqrt with axiom s >= 0 and s*s = arg.  The one-sided (epsilon/10) clause for hot/cold profiles is decided
on the same paths.
"""
from __future__ import annotations

from symx import h
from symx.runner import Family

PROPERTY = "C17"
LEVEL = "model_checking"
FILES = ["OpenPinch/utils/miscellaneous.py", "OpenPinch/utils/stream_linearisation.py"]
TOL = 1e-6
YGRID = {3: [200.0, 150.0, 100.0], 4: [200.0, 180.0, 120.0, 60.0], 5: [250.0, 200.0, 180.0, 120.0, 60.0], 6: [300.0, 250.0, 200.0, 180.0, 120.0, 60.0]}


def body_clean(ctx, case):
    from OpenPinch.utils import miscellaneous as misc
    ys = YGRID[case["n"]]
    n = len(ys)
    x0 = ctx.real("x0", 0, 1e4)
    xs = [x0]
    for k in range(n - 1):
        d = ctx.real(f"d{k}", 0, 5e3)
        ctx.assume(h.disj([h.close(d, 0.0, 0.0), d >= 1.0 / 1024]))
        xs.append(xs[-1] - d)
    ctx.assume(h.disj([h.close(xs[0] - xs[-1], 0.0, 0.0), xs[0] - xs[-1] >= 0.5]))     # total span 0 (flat) or >= 0.5: see the variance model
    yk, xk = misc.clean_composite_curve(list(ys), list(xs))
    yk, xk = list(yk), list(xk)
    m = len(xk)
    # kept points are original points, in the original order
    idx = []
    ok = True
    pos = 0
    for j in range(m):
        found = None
        for k in range(pos, n):
            if abs(float(yk[j]) - ys[k]) < 1e-12 and bool(h.close(xk[j], xs[k], 0.0)):
                found = k
                break
        if found is None:
            ok = False
            break
        idx.append(found)
        pos = found + 1
    ctx.require(ok, "kept points are original points in the original order")
    if not ok:
        return
    if m < n:
        ctx.tag("points removed")
    if m == 0:
        ctx.require(h.conj(h.close(xs[k], xs[0], TOL + 1e-9) for k in range(n)), "an empty result only for a flat curve")
        ctx.tag("flat curve")
        return
    # first and last non-flat points kept: everything before the first kept point has the same x as it (flat), same at the end
    ctx.require(h.conj([h.close(xs[k], xs[idx[0]], TOL + 1e-9) for k in range(0, idx[0])] +
                       [h.close(xs[k], xs[idx[-1]], TOL + 1e-9) for k in range(idx[-1] + 1, n)]),
                "only flat ends are trimmed: first and last non-flat points are kept")
    # every removed interior point lies within 1e-6 K of the polyline through the kept points
    conds = []
    for a, b in zip(idx, idx[1:]):
        for k in range(a + 1, b):
            ctx.tag("interior point removed")
            # |y_k - (y_a + (y_b-y_a)(x_k-x_a)/(x_b-x_a))| <= tol   with x descending: x_a >= x_b
            dx = xs[a] - xs[b]
            lhs = (ys[k] - ys[a]) * (xs[b] - xs[a]) - (ys[b] - ys[a]) * (xs[k] - xs[a])
            conds.append(h.disj([h.conj([h.close(dx, 0.0, 0.0), h.close(xs[k], xs[a], TOL)]),
                                 h.conj([lhs <= (TOL + 1e-9) * dx, -lhs <= (TOL + 1e-9) * dx])]))
            if b - a >= 3:
                ctx.tag("two consecutive points removed")
    ctx.region("chain_of_removed_points", any(b - a >= 3 for a, b in zip(idx, idx[1:])))
    ctx.require(h.conj(conds), "the polyline through the kept points passes within 1e-6 of every removed point")
    ctx.note("kept", m)


def perp_ok(ctx, p, a, b, eps):
    """perpendicular distance of p from the line through a,b <= eps (points are (x concrete, y symbolic))."""
    from symx import uf
    lx, ly = b[0] - a[0], b[1] - a[1]
    px, py = p[0] - a[0], p[1] - a[1]
    cross = lx * py - ly * px
    norm2 = lx * lx + ly * ly
    if ctx.mode == "concrete":
        import math
        return abs(cross) <= eps * math.sqrt(norm2) + 1e-9
    s = uf.sqrt(norm2)
    return h.conj([cross <= eps * s + 1e-9, -cross <= eps * s + 1e-9])


def body_rdp(ctx, case):
    import numpy as np
    from OpenPinch.utils import stream_linearisation as sl
    xs = case["xs"]
    n = len(xs)
    eps = case["eps"]
    hot = case.get("hot", True)
    ys = [ctx.const(float(case["y0"]))] + [ctx.real(f"y{k}", -50, 50) for k in range(1, n - 1)] + [ctx.const(float(case["y1"]))]
    if case.get("free_ends"):
        ys[0] = ctx.real("y0", -50, 50)
        ys[-1] = ctx.real(f"y{n-1}", -50, 50)
    curve = [[ctx.const(float(x)), y] for x, y in zip(xs, ys)]
    if case.get("entry") == "public":
        out = sl.get_piecewise_data_points(curve=curve, is_hot_stream=hot, dt_diff_max=eps)
    else:
        out = sl._rdp(np.array(curve, dtype=object) if ctx.mode != "concrete" else np.array(curve), eps)
    kept = [(float(h.fl(r[0])), r[1]) for r in list(out)]
    idx = []
    pos = 0
    ok = True
    for kx, ky in kept:
        found = None
        for k in range(pos, n):
            if abs(kx - xs[k]) < 1e-12 and bool(h.close(ky, ys[k], 0.0)):
                found = k
                break
        if found is None:
            ok = False
            break
        idx.append(found)
        pos = found + 1
    ctx.require(ok, "returned points are original points in the original order")
    if not ok:
        return
    ctx.require(idx[0] == 0 and idx[-1] == n - 1, "both end points are kept")
    if len(idx) < n:
        ctx.tag("points dropped")
    if len(idx) > 2:
        ctx.tag("interior point kept")
    conds = []
    onesided = []
    for a, b in zip(idx, idx[1:]):
        for k in range(a + 1, b):
            conds.append(perp_ok(ctx, (xs[k], ys[k]), (xs[a], ys[a]), (xs[b], ys[b]), eps))
            # simplified profile value at x_k
            yi = ys[a] + (ys[b] - ys[a]) * ((xs[k] - xs[a]) / (xs[b] - xs[a]))
            onesided.append(yi - ys[k] <= eps / 10 + 1e-9 if hot else ys[k] - yi <= eps / 10 + 1e-9)
    ctx.require(h.conj(conds), "every dropped point lies within the maximum deviation of the simplified polyline")
    ctx.region("one_sided_without_refinement", True)
    ctx.require(h.conj(onesided), "one-sided clause: the simplified hot profile is never above (cold: below) the original by more than a tenth of the deviation")
    ctx.note("kept", len(idx))


def cases_clean(tier, seed):
    return [{"n": n} for n in ((3, 4, 5) if tier == "quick" else (3, 4, 5, 6))]


def cases_rdp(tier, seed):
    out = [{"xs": [0, 1, 2], "y0": 0, "y1": 2, "eps": 0.5},
           {"xs": [0, 1, 2, 4], "y0": 0, "y1": 3, "eps": 0.5},
           {"xs": [0, 1, 2, 4], "y0": 0, "y1": 3, "eps": 0.5, "entry": "public", "hot": True},
           {"xs": [0, 1, 3], "y0": 1, "y1": 1, "eps": 0.25, "entry": "public", "hot": False}]
    if tier != "quick":
        out += [{"xs": [0, 1, 2, 3, 5], "y0": 0, "y1": 4, "eps": 0.5},
                {"xs": [0, 2, 3], "y0": 0, "y1": 0, "eps": 1.0, "free_ends": True},
                {"xs": [0, 1, 2, 4], "y0": 5, "y1": -3, "eps": 0.125, "entry": "public", "hot": False}]
    return out


FAMILIES = [
    Family(name="clean", cases=cases_clean, body=body_clean, functions=["clean_composite_curve_ends", "clean_composite_curve"], files=FILES[:1],
           bounds="polylines of 3-5 points (thorough: 3-6): temperatures concrete, enthalpies z3 reals, monotone, each drop 0 (flat / vertical step) or >= 1/1024, total span 0 or >= 0.5",
           assumptions=["floats modelled as exact reals", "temperatures (y) concrete, enthalpies (x) symbolic: every collinearity test stays linear",
                        "total enthalpy span is 0 or >= 0.5 (the variance test of clean_composite_curve_ends is modelled as 'all equal?'); single drops are 0 or >= 1/1024"],
           shim_modules=["OpenPinch.utils.miscellaneous"], snap="dyadic", split_paths=40, validate_every=3,
           reach=["points removed", "interior point removed"]),
    Family(name="rdp", cases=cases_rdp, body=body_rdp, functions=["_rdp", "get_piecewise_data_points", "_get_piecewise_breakpoints"], files=FILES[1:],
           bounds="polylines of 3-4 points (thorough: up to 5) with concrete abscissae and z3-real ordinates in [-50,50] (interior points; end points concrete or symbolic as listed), "
                  "deviation tolerance concrete in {0.125, 0.25, 0.5, 1}; <= 10 points, so the code runs no SLSQP refinement",
           assumptions=["floats modelled as exact reals", "||chord|| is an uninterpreted sqrt with axiom s >= 0, s*s = dx^2 + dy^2 (nonlinear real arithmetic)",
                        "the SLSQP refinement (> 10 surviving points) is outside reach (scipy)"],
           shim_modules=["OpenPinch.utils.stream_linearisation"], snap="dyadic", split_paths=0, validate_every=1, timeout_ms=60000,
           reach=["points dropped", "interior point kept"]),
]
