"""C13 -- graph payloads reproduce the curves of the problem tables.

family `curves`: clean_composite_curve_ends, clean_composite_curve, _make_composite_graph/_graph_cc,
_make_gcc_graph/_build_gcc_segments/_iter_gcc_segment_slices/_segment_bounds/_classify_segment/_create_curve executed
symbolically on ARBITRARY curves: temperatures concrete (descending), enthalpies z3 reals (monotone for composite
curves, arbitrary >= 0 for grand composites; flat runs and repeated values are solver choices).
family `records`: the pipeline (shared site harness) followed by the real get_output_graph_data: one graph set per
record, keyed by its name, documented graph types.
"""
from __future__ import annotations

from symx import h
from symx.runner import Family

PROPERTY = "C13"
LEVEL = "model_checking"
FILES = ["OpenPinch/analysis/graph_data.py", "OpenPinch/utils/miscellaneous.py"]
FUNCS = ["clean_composite_curve_ends", "clean_composite_curve", "_make_composite_graph", "_graph_cc", "_make_gcc_graph", "_build_gcc_segments",
         "_iter_gcc_segment_slices", "_segment_bounds", "_classify_segment", "_segment_streamloc", "_create_curve", "_column_to_list"]
DISP = 0.01          # display rounding of the statement
TGRIDS = {"4n": [200.0, 150.004, 150.0, 100.0],      # two rows 0.004 K apart: the same temperature once rounded for display
          3: [200.0, 150.0, 100.0], 4: [200.0, 180.0, 120.0, 60.0], 5: [250.0, 200.0, 180.0, 120.0, 60.0], 6: [300.0, 250.0, 200.0, 180.0, 120.0, 60.0]}


def interp_points(pts, T):
    """x of the polyline through pts (y descending, concrete) at temperature T; None outside."""
    if T > pts[0][1] + 1e-9 or T < pts[-1][1] - 1e-9:
        return None
    for (x0, y0), (x1, y1) in zip(pts, pts[1:]):
        if y0 + 1e-9 >= T >= y1 - 1e-9:
            if abs(y0 - y1) < 1e-12:
                return None
            return x1 + (x0 - x1) * ((T - y1) / (y0 - y1))
    return None


def near_in_T(pts, Hk, Tk, tolT):
    """alternatives: (Hk, Tk) lies within tolT (in temperature) of a segment of the emitted polyline whose enthalpy range contains Hk.
    Linear in the symbolic enthalpies: |(Tk-y0)(x1-x0) - (y1-y0)(Hk-x0)| <= tolT |x1-x0|."""
    alts = []
    for (x0, y0), (x1, y1) in zip(pts, pts[1:]):
        dev = (Tk - y0) * (x1 - x0) - (y1 - y0) * (Hk - x0)
        for sgn in (1, -1):        # x1 >= x0 or x1 <= x0
            w = (x1 - x0) * sgn
            alts.append(h.conj([w >= 0, (Hk - x0) * sgn >= 0, (x1 - Hk) * sgn >= 0, dev <= tolT * w, -dev <= tolT * w]))
    return alts


def check_curve(ctx, tag, Ts, Hs, pts):
    """Ts concrete descending, Hs symbolic column, pts emitted [(x, y)] in order."""
    n = len(Ts)
    # 1. every emitted point lies on the curve to display rounding
    conds = []
    for x, y in pts:
        rows = [k for k in range(n) if abs(round(Ts[k], 2) - y) < 1e-9]
        conds.append(h.disj(h.close(x, Hs[k], DISP / 2 + 1e-9) for k in rows) if rows else False)
    ctx.require(h.conj(conds), f"{tag}: every emitted point lies on the table curve to display rounding")
    # 2. linear interpolation through the emitted points recovers every table row of the non-flat extent;
    #    rows outside the emitted range belong to the flat ends (same enthalpy as the nearest emitted end)
    conds, loose = [], []
    for k in range(n):
        same_y = [x for x, y in pts if abs(y - round(Ts[k], 2)) < 1e-9]
        xi = interp_points(pts, Ts[k]) if pts else None
        if len(same_y) >= 1 and any(abs(round(Ts[j], 2) - round(Ts[k], 2)) < 1e-9 for j in range(n) if j != k):
            # several rows share this displayed temperature: the row is one of the points emitted at it, or (removed as redundant) lies within
            # display rounding IN TEMPERATURE of an emitted segment that spans its enthalpy
            conds.append(h.disj([h.close(x, Hs[k], DISP + 1e-6) for x in same_y] + near_in_T(pts, Hs[k], Ts[k], DISP + 1e-6)))
            loose.append(h.disj([h.close(x, Hs[k], 4 * DISP) for x in same_y] + near_in_T(pts, Hs[k], Ts[k], 4 * DISP)))
            ctx.tag("rows sharing a displayed temperature")
        elif xi is not None:
            conds.append(h.close(xi, Hs[k], DISP + 1e-6))
            loose.append(h.close(xi, Hs[k], 4 * DISP))
        elif pts:
            end = pts[0][0] if Ts[k] > pts[0][1] else pts[-1][0]
            conds.append(h.close(end, Hs[k], DISP + 1e-6))
            loose.append(h.close(end, Hs[k], 4 * DISP))
        else:
            conds.append(h.close(Hs[k], Hs[0], 1e-6 + 1e-9))     # nothing emitted: the curve is flat
            loose.append(h.close(Hs[k], Hs[0], 4 * DISP))
    ctx.require(h.conj(conds), f"{tag}: the emitted points reproduce every table row of the non-flat extent (interpolation within 0.01)", robust=h.conj(loose))
    # 3. first and last emitted points are the first and last non-flat points: no non-flat part is trimmed away
    if pts:
        ctx.require(h.conj([pts[k][1] > pts[k + 1][1] - 1e-9 for k in range(len(pts) - 1)]), f"{tag}: emitted points keep the table order")


def seg_points(seg):
    return [(p["x"], p["y"]) for p in seg["data_points"]]


def body_cc(ctx, case):
    from OpenPinch.analysis import graph_data as gd
    from OpenPinch.lib.enums import GT, PT, StreamLoc
    Ts = TGRIDS[case["n"]]
    n = len(Ts)
    # hot composite: non-increasing down the table, ends at 0; cold: non-increasing, arbitrary offset
    top = ctx.real("Htop", 0, 1e4)
    drops = [ctx.real(f"d{k}", 0, 5e3) for k in range(n - 1)]
    for d in drops:
        ctx.assume(h.disj([h.close(d, 0.0, 0.0), d >= 0.5]))
    Hh = [top]
    for d in drops:
        Hh.append(Hh[-1] - d)
    ctx.assume(h.close(Hh[-1], 0.0, 0.0))
    off = ctx.real("off", 0, 100)
    cd = [ctx.real(f"c{k}", 0, 5e3) for k in range(n - 1)]
    for d in cd:
        ctx.assume(h.disj([h.close(d, 0.0, 0.0), d >= 0.5]))
    Hc = [off]
    for d in reversed(cd):
        Hc.insert(0, Hc[0] + d)
    data = {PT.T.value: list(Ts), PT.H_HOT.value: list(Hh), PT.H_COLD.value: list(Hc)}
    g = gd._make_composite_graph(graph_title="Z/Direct Integration", key=GT.CC.value, data=data, label="Composite Curve",
                                 col_keys=[PT.H_HOT.value, PT.H_COLD.value], stream_types=[StreamLoc.HotS, StreamLoc.ColdS])
    ctx.require(g["type"] == GT.CC.value and len(g["segments"]) == 2, "composite graph has one hot and one cold curve")
    for seg, Hs, nm in zip(g["segments"], (Hh, Hc), ("hot CC", "cold CC")):
        pts = seg_points(seg)
        if len(pts) < n:
            ctx.tag("redundant point removed")
        if len(pts) == 0:
            ctx.tag("flat curve emitted empty")
        check_curve(ctx, nm, Ts, Hs, pts)
    ctx.note("npts_hot", len(g["segments"][0]["data_points"]))


def body_gcc(ctx, case):
    from OpenPinch.analysis import graph_data as gd
    from OpenPinch.lib.enums import GT, PT, StreamLoc
    Ts = TGRIDS[case["n"]]
    n = len(Ts)
    Hs = [ctx.real(f"H{k}", 0, 1e4) for k in range(n)]
    for a in range(n - 1):
        d = Hs[a] - Hs[a + 1]
        # consecutive values equal, or different by more than the vertical-segment tolerance band; `sliver` cases also allow
        # differences INSIDE the 1e-3 'vertical' band (but above the 1e-6 equality tolerance)
        opts = [h.close(d, 0.0, 0.0), d >= 0.5, -d >= 0.5]
        if case.get("sliver"):
            opts += [h.conj([d >= 1.0 / 4096, d <= 1.0 / 1024]), h.conj([-d >= 1.0 / 4096, -d <= 1.0 / 1024])]
        ctx.assume(h.disj(opts))
    util = case.get("utility", False)
    col = PT.H_NET_UT.value if util else PT.H_NET.value
    data = {PT.T.value: list(Ts), col: list(Hs)}
    g = gd._make_gcc_graph(graph_title="Z/Direct Integration", key=GT.GCC.value, data=data, label="Grand Composite Curve",
                           value_field=[col], is_utility_profile=[util])
    segs = g["segments"]
    allpts = []
    conds = []
    for i, seg in enumerate(segs):
        pts = seg_points(seg)
        ctx.require(len(pts) >= 2, "every GCC segment has at least two points")
        if allpts:
            conds.append(h.conj([h.close(allpts[-1][0], pts[0][0], 1e-9), abs(allpts[-1][1] - pts[0][1]) < 1e-9]))
            allpts += pts[1:]
        else:
            allpts += pts
        # classification follows the sign of the enthalpy change along the segment
        for (x0, y0), (x1, y1) in zip(pts, pts[1:]):
            dH = x0 - x1          # going down the table
            if seg.get("is_vertical"):
                conds.append(h.close(dH, 0.0, 1e-3 + DISP + 1e-6))
            else:
                want_pos = seg["colour"] in ((1,) if not util else (2,))       # ColdS=1 / HotU=2 when dH > 0
                conds.append(dH >= -DISP if want_pos else dH <= DISP)
                ctx.require(seg["colour"] in ((0, 1) if not util else (2, 3)), "segment colour belongs to the curve kind")
    ctx.require(h.conj(conds), "GCC segments join without gaps and their hot/cold (utility) class follows the sign of the enthalpy change")
    if len(segs) >= 2:
        ctx.tag("several segments")
    check_curve(ctx, "GCC", Ts, Hs, allpts)


def body_records(ctx, case):
    from harness import pipeline
    from OpenPinch.analysis import graph_data as gd
    from OpenPinch.lib.enums import GT
    site, info, recs = pipeline.run_site(ctx, case)
    # redundant-point removal is the subject of the `cc`/`gcc` families; here it is an identity stub so that the
    # record-level obligations (keys, types, extents) do not multiply with its collinearity branches
    real_clean = gd.clean_composite_curve
    if ctx.mode != "concrete":
        def _identity_clean(y, x):
            xs = list(x)
            if any(isinstance(v, float) and v != v for v in xs):
                return real_clean(y, x)
            return list(y), xs
        gd.clean_composite_curve = _identity_clean
    try:
        gs = gd.get_output_graph_data(site, {})
    finally:
        gd.clean_composite_curve = real_clean
    ctx.require(set(gs.keys()) == set(recs.keys()), "exactly one graph set per target record, keyed by the record's name")
    for name, g in gs.items():
        ctx.require(g["name"] == name, "graph set carries its record name")
        types = [x["type"] for x in g["graphs"]]
        if name.endswith("Direct Integration"):
            want = [GT.CC.value, GT.SCC.value, GT.BCC.value, GT.GCC.value, GT.GCC_HP.value]
            ctx.require(all(t in want for t in types) and all(t in types for t in (GT.CC.value, GT.SCC.value, GT.GCC.value)),
                        f"direct-integration graph set has the documented graph types (got {types})")
        elif name.endswith("Total Site Target"):
            ctx.require(sorted(types) == sorted([GT.TSP.value, GT.SUGCC.value]), f"total-site graph set has the documented graph types (got {types})")
        else:
            ctx.require(types == [], f"total-process record has no graphs (got {types})")
    # curve extents: hot CC spans the hot duty, cold CC the cold duty; GCC ends at Qh / Qc
    for zn, sts in list(info.items()):
        totH, totC = pipeline.totals(ctx, sts)
        g = gs[f"{zn}/Direct Integration"]
        for graph in g["graphs"]:
            if graph["type"] == GT.SCC.value:
                for seg, tot in zip(graph["segments"], (totH, totC)):
                    pts = seg["data_points"]
                    if pts:
                        xs = [p["x"] for p in pts]
                        span = h.vmax(ctx, xs) - h.vmin(ctx, xs)
                        ctx.require(h.close(span, tot, 2 * DISP + 1e-3), f"{zn}: shifted composite curve spans the stream duty")
                        ctx.tag("curve extent checked")


def cases_cc(tier, seed):
    return [{"n": n} for n in ((3, 4, "4n") if tier == "quick" else (3, 4, "4n", 5, 6))]


def cases_gcc(tier, seed):
    ns = (3, 4) if tier == "quick" else (3, 4, 5, 6)
    return ([{"n": n} for n in ns] + [{"n": n, "utility": True} for n in ns[:2]]
            + [{"n": n, "sliver": True} for n in ns[:2]] + [{"n": 3, "sliver": True, "utility": True}] + [{"n": "4n"}])


def cases_records(tier, seed):
    from harness import pipeline
    if tier == "quick":
        return pipeline.sweep_cases(["one_zone_pinched"], what=("ts",), which={(0, 0, "ts")}, opts={"DO_BALANCED_CC": True})
    return (pipeline.sweep_cases(["one_zone_pinched", "two_zone_recovery"], what=("ts", "tt"), opts={"DO_BALANCED_CC": True})
            + pipeline.sweep_cases(["two_zone_recovery"], what=("ts",), utils=pipeline.LADDER_BOTH))


ASSUME = ["floats modelled as exact reals", "temperatures concrete (fixed grids of 3-6 rows), enthalpies z3 reals",
          "2-dp display rounding over-approximated: a fresh real within 0.005 of its argument",
          "consecutive enthalpy values are equal or differ by >= 0.5 (the 1e-3 'vertical' band and the variance test of clean_composite_curve_ends are outside)"]

FAMILIES = [
    Family(name="cc", cases=cases_cc, body=body_cc, functions=FUNCS, files=FILES,
           bounds="hot and cold composite columns of 3-4 rows (thorough: 3-6) on fixed temperature grids; per-interval enthalpy drops z3 reals that are 0 (flat run) or >= 0.5",
           assumptions=ASSUME, shim_modules=["OpenPinch.analysis.graph_data", "OpenPinch.utils.miscellaneous"], snap="dyadic", split_paths=40,
           validate_every=3, reach=["redundant point removed"]),
    Family(name="gcc", cases=cases_gcc, body=body_gcc, functions=FUNCS, files=FILES,
           bounds="grand composite / utility GCC columns of 3-4 rows (thorough: 3-6): every value a z3 real in [0,1e4], consecutive values equal or >= 0.5 apart; "
                  "sliver cases (3-4 rows) also allow consecutive differences in [1/4096, 1/1024], i.e. inside the 1e-3 vertical band",
           assumptions=ASSUME, shim_modules=["OpenPinch.analysis.graph_data", "OpenPinch.utils.miscellaneous"], snap="dyadic", split_paths=40,
           validate_every=3, reach=["several segments"]),
    Family(name="records", cases=cases_records, body=body_records, functions=["get_output_graph_data", "_create_graph_set"] + FUNCS,
           files=FILES + ["OpenPinch/analysis/direct_integration_entry.py", "OpenPinch/analysis/indirect_integration_entry.py"],
           bounds="pipeline line sweeps (see C02) followed by get_output_graph_data", assumptions=ASSUME, shim_modules=None, snap="micro",
           split_paths=10, validate_every=5, reach=["curve extent checked"]),
]
