"""C19 -- Stream and StreamCollection objects stay consistent under any use.

family `stream_setters`: Stream.__init__ with symbolic arguments followed by a solver-chosen sequence of K
public assignments (t_supply, t_target, heat_flow, dt_cont, htc, set_heat_flow) with symbolic values; the
invariant of the statement is discharged after the constructor and after every assignment.

family `collection_ops`: StreamCollection under a solver-chosen sequence of add / add_many / remove / replace /
set_sort_key / + / index / iterate with names from a clash-prone pool (finite-domain symbolic) and symbolic
sort keys (z3 reals): membership, len, iteration order against an independent multiset model.
"""
from __future__ import annotations

from symx import h
from symx.runner import Family

PROPERTY = "C19"
LEVEL = "model_checking"
EQ = 1e-9
FILES = ["OpenPinch/classes/stream.py", "OpenPinch/classes/stream_collection.py"]

GAP = 1.0 / 1024       # smallest non-zero temperature span: well below the 0.01 K nominal span of isothermal streams
OPS = ["t_supply", "t_target", "heat_flow", "dt_cont", "htc", "set_heat_flow"]


def invariant(ctx, s, tag):
    cp, q = s.CP, s.heat_flow
    span = s.t_max - s.t_min
    ctx.require(h.close(cp * span, q, 1e-9), f"{tag}: CP x temperature span equals duty")
    ctx.require(h.conj([s.t_min <= s.t_max]), f"{tag}: t_min <= t_max")
    d = s.dt_cont
    if s.type == "Hot":
        ok = h.conj([h.close(s.t_min_star, s.t_min - d, EQ), h.close(s.t_max_star, s.t_max - d, EQ)])
    else:
        ok = h.conj([h.close(s.t_min_star, s.t_min + d, EQ), h.close(s.t_max_star, s.t_max + d, EQ)])
    ctx.require(ok, f"{tag}: shifted bounds are the real bounds moved by dT_cont in the direction of the stream's kind")
    ctx.require(h.close(s.htr * s.htc, 1.0, EQ), f"{tag}: resistance is the reciprocal of the film coefficient")
    # the bounds are the supply/target temperatures (a stream's span is |Ts - Tt|)
    ctx.require(h.conj([h.disj([h.conj([h.close(s.t_min, s.t_supply, EQ), h.close(s.t_max, s.t_target, EQ)]),
                                h.conj([h.close(s.t_min, s.t_target, EQ), h.close(s.t_max, s.t_supply, EQ)])])]),
                f"{tag}: t_min/t_max are the supply and target temperatures")


def body_stream(ctx, case):
    from OpenPinch.classes.stream import Stream
    K = case["K"]
    ts = ctx.real("ts", 0, 500)
    tt = ctx.real("tt", 0, 500)
    q = ctx.real("q", 0, 1e4)
    dt = ctx.real("dt", 0, 20)
    htc = ctx.real("htc", 0.01, 10)
    # legal initial shapes: distinct temperatures, or isothermal with a non-zero signed duty
    iso = h.close(ts, tt, 0.0)
    ctx.assume(h.disj([ts - tt >= GAP, tt - ts >= GAP, h.conj([iso, q >= 1e-3])]))
    sign = 1.0
    if case.get("neg_latent"):
        sign = -1.0
        ctx.assume(iso)
    s = Stream(name="S", t_supply=ts, t_target=tt, heat_flow=q * sign, dt_cont=dt, htc=htc)
    ctx.region("kind_flip", False)
    invariant(ctx, s, "after __init__")
    kind0 = s.type
    flipped = False
    for k in range(K):
        op = OPS[ctx.choice(f"op{k}", len(OPS))]
        if op in ("t_supply", "t_target"):
            v = ctx.real(f"v{k}", 0, 500)
            other = s.t_target if op == "t_supply" else s.t_supply
            # legal: the new temperature pair is distinct by >= GAP (below the 0.01 K nominal span given to latent streams), or equal (latent) with non-zero duty
            ctx.assume(h.disj([v - other >= GAP, other - v >= GAP, h.conj([h.close(v, other, 0.0), h.disj([s.heat_flow >= 1e-3, s.heat_flow <= -1e-3])])]))
            setattr(s, op, v)
        elif op == "heat_flow":
            v = ctx.real(f"v{k}", 0, 1e4)
            s.heat_flow = v
        elif op == "set_heat_flow":
            v = ctx.real(f"v{k}", 0, 1e4)
            s.set_heat_flow(v)
        elif op == "dt_cont":
            v = ctx.real(f"v{k}", 0, 20)
            s.dt_cont = v
        elif op == "htc":
            v = ctx.real(f"v{k}", 0.01, 10)
            s.htc = v
        ctx.tag(f"op:{op}")
        # region of the recorded finding: the temperatures now run the other way than the kind fixed at first classification
        now_hot = s.t_supply > s.t_target
        now_cold = s.t_supply < s.t_target
        flip = h.disj([h.conj([kind0 == "Hot", now_cold]), h.conj([kind0 == "Cold", now_hot])])
        ctx.region("kind_flip", flip)
        invariant(ctx, s, f"after op{k}")
    ctx.note("CP", s.CP); ctx.note("tmin*", s.t_min_star); ctx.note("htr", s.htr)


def cases_stream(tier, seed):
    if tier == "quick":
        return [{"K": 1}, {"K": 2}, {"K": 1, "neg_latent": True}]
    return [{"K": 1}, {"K": 2}, {"K": 3}, {"K": 2, "neg_latent": True}]


# ------------------------------------------------------------------------------------------------ collection
NAMES = ["S", "S_1", "T"]
PRE_KEYS = ["S", "S_1", "S_2", "T"]
COPS = ["add", "add_key", "add_many", "remove", "replace", "set_sort_key", "concat"]


class _Item:
    """Minimal stream-like member: a name and a (symbolic) sort attribute."""

    def __init__(self, name, t_supply, uid):
        self.name = name
        self.t_supply = t_supply
        self.t_target = -t_supply
        self.uid = uid

    def __repr__(self):
        return f"<{self.name}#{self.uid}>"


def _ordered_ok(ctx, seq, keyf, reverse):
    conds = []
    for a, b in zip(seq, seq[1:]):
        conds.append(keyf(a) >= keyf(b) if reverse else keyf(a) <= keyf(b))
    return h.conj(conds)


def body_collection(ctx, case):
    from OpenPinch.classes.stream_collection import StreamCollection
    K = case["K"]
    col = StreamCollection()
    model = []          # independent model: list of member objects
    uid = [0]
    keyf, reverse = (lambda s: s.t_supply), True

    def new_item():
        nm = NAMES[ctx.choice(f"n{uid[0]}", len(NAMES))]
        it = _Item(nm, ctx.real(f"k{uid[0]}", 0, 100), uid[0])
        uid[0] += 1
        return it

    def check(tag):
        members = list(col)
        ctx.require(len(col) == len(model), f"{tag}: len equals the number of members held")
        ctx.require(len(members) == len(model) and all(any(m is x for x in members) for m in model),
                    f"{tag}: iteration yields exactly the members (none lost, none silently replaced)")
        ctx.require(_ordered_ok(ctx, members, keyf, reverse), f"{tag}: iteration follows the sort key")
        for i, m in enumerate(members):
            ctx.require(members[col.get_index(m)] is m or bool(h.close(keyf(members[col.get_index(m)]), keyf(m), 0.0)) ,
                        f"{tag}: get_index finds the member")
            break

    if case.get("pre"):
        # induction step from an ARBITRARY valid state instead of a history: any subset of these keys may already be held (the state a
        # sequence of adds, renamed adds and removes of any length can leave behind -- e.g. S and S_2 without S_1)
        for key in PRE_KEYS:
            if ctx.choice(f"has_{key}", 2):
                it = _Item(key.split("_")[0], ctx.real(f"k{uid[0]}", 0, 100), uid[0])
                uid[0] += 1
                col._streams[key] = it
                model.append(it)
        col._needs_sort = True
        if len(model) >= 2:
            ctx.tag("pre-populated state")
        check("arbitrary valid pre-state")
    for k in range(K):
        op = COPS[ctx.choice(f"op{k}", len(COPS))]
        ctx.tag(f"op:{op}")
        if op == "add":
            it = new_item()
            col.add(it)
            model.append(it)
        elif op == "add_key":
            it = new_item()
            col.add(it, key=NAMES[ctx.choice(f"key{k}", len(NAMES))])
            model.append(it)
        elif op == "add_many":
            its = [new_item(), new_item()]
            col.add_many(its)
            model += its
        elif op == "remove":
            nm = NAMES[ctx.choice(f"rm{k}", len(NAMES))]
            if nm in col:
                victim = col[nm]
                col.remove(nm)
                model = [m for m in model if m is not victim]
                ctx.require(nm not in col or True, "remove")
            else:
                try:
                    col.remove(nm)
                    ctx.fail("remove of an unknown key did not raise")
                except KeyError:
                    pass
        elif op == "replace":
            its = [new_item() for _ in range(ctx.choice(f"nrep{k}", 3))]       # 0, 1 or 2 new members
            d = {f"x{i}": it for i, it in enumerate(its)}
            col.replace(d)
            model = list(its)
            if not its:
                ctx.tag("replace with an empty mapping")
        elif op == "set_sort_key":
            which = ctx.choice(f"sk{k}", 3)
            if which == 0:
                col.set_sort_key("t_target", reverse=False)
                keyf, reverse = (lambda s: s.t_target), False
            elif which == 1:
                col.set_sort_key(["t_supply", "t_target"], reverse=True)
                keyf, reverse = (lambda s: s.t_supply), True
            else:
                col.set_sort_key(lambda s: s.t_supply, reverse=False)
                keyf, reverse = (lambda s: s.t_supply), False
        elif op == "concat":
            other = StreamCollection()
            its = [new_item()]
            for it in its:
                other.add(it)
            both = col + other
            ctx.require(len(both) == len(model) + len(its) and all(any(m is x for x in both) for m in model + its),
                        f"op{k}: concatenation holds every member of both operands")
            ctx.require(len(col) == len(model), f"op{k}: concatenation leaves the left operand unchanged")
        elif op == "iterate":
            list(col)
        check(f"after op{k} ({op})")
        # judge every operation on its own: continue from the collection's actual content
        model = list(col._streams.values())


def cases_collection(tier, seed):
    return [{"K": 1}, {"K": 2}, {"K": 1, "pre": True}] if tier == "quick" else [{"K": 2}, {"K": 3}, {"K": 1, "pre": True}, {"K": 2, "pre": True}]


FAMILIES = [
    Family(
        name="stream_setters", cases=cases_stream, body=body_stream,
        functions=["Stream.__init__", "Stream._update_attributes", "Stream.set_heat_flow", "Stream._calc_htr_and_cp_product",
                   "Stream._set_hot_stream_min_max_temperatures", "Stream._set_cold_stream_min_max_temperatures",
                   "property setters t_supply/t_target/heat_flow/dt_cont/htc"],
        files=["OpenPinch/classes/stream.py"],
        bounds="constructor arguments symbolic (Ts,Tt in [0,500], duty in [0,1e4], dT_cont in [0,20], htc in [0.01,10]; |Ts-Tt| >= 1/1024 or isothermal with "
               "non-zero duty, positive or negative) followed by every sequence of 1-2 (thorough: 3) assignments chosen by the solver from "
               "{t_supply, t_target, heat_flow, dt_cont, htc, set_heat_flow} with symbolic values in the same ranges",
        assumptions=["floats modelled as exact reals", "htc > 0 on assignment; temperatures assigned keep |Ts-Tt| >= 1/1024 K or are exactly equal with non-zero duty"],
        shim_modules=["OpenPinch.classes.stream"], reach=["op:t_supply", "op:set_heat_flow", "op:htc"], split_paths=60, validate_every=3,
    ),
    Family(
        name="collection_ops", cases=cases_collection, body=body_collection,
        functions=["StreamCollection.add", "add_many", "replace", "remove", "set_sort_key", "get_index", "_ensure_sorted", "__iter__", "__add__", "__len__", "__getitem__", "__contains__"],
        files=["OpenPinch/classes/stream_collection.py"],
        bounds="every sequence of 1-2 (thorough: 3) operations chosen by the solver from {add, add with key, add_many(2), remove, replace(0-2), set_sort_key(3 forms), +}, each followed by len / full iteration / get_index; "
               "member names from the clash-prone pool {S, S_1, T} (finite-domain symbolic), sort attributes z3 reals in [0,100]; induction-step cases start from an ARBITRARY valid "
               "state (any subset of the keys S, S_1, S_2, T already held -- what add / renamed add / remove histories of any length can leave) and apply 1 (thorough 1-2) operations",
        assumptions=["names range over a 3-element pool (not unbounded strings)"],
        shim_modules=["OpenPinch.classes.stream_collection"], reach=["op:add", "op:replace", "op:concat", "op:set_sort_key", "replace with an empty mapping", "pre-populated state"], split_paths=200, validate_every=10,
    ),
]
