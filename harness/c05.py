"""C05 -- composite curves and problem tables are faithful to the streams (see harness/cascade.py)."""
from harness import cascade

PROPERTY = "C05"
LEVEL = "model_checking"
FAMILIES = cascade.families(("C05",), "C05")
