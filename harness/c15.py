"""C15 -- area, exchanger-count and capital-cost targets follow their definitions.

families:
  cost        compute_capital_cost, compute_annual_capital_cost, compute_capital_recovery_factor, get_capital_cost_targets with
              area / unit count / cost factors / discount rate as z3 reals: C = N(a + b (A/N)^c) (x^c an uninterpreted, strictly
              increasing power function), annualised = C * CRF, CRF * sum_{k=1..n} (1+i)^-k = 1 as a rational-function identity for
              concrete lives n = 1..6 (thorough ..10), both costs strictly increasing in area.
  resistance  get_balanced_CC called directly with film resistances (or heat-capacity flowrates) as z3 reals: each interval resistance
              is the duty-weighted film resistance of the process and utility participants present.
  area        the direct-integration pipeline with DO_AREA_TARGETING on concrete templates whose film resistances (every stream and
              utility) are z3 reals: reported area == harness/arearef.py (independent balanced composites / enthalpy intervals / LMTD),
              area > 0, capital cost = N(a + b (A/N)^c) of that area.
  balanced    the pipeline harness with balanced curves on: the balanced hot and cold composite curves (process + assigned
              utilities) have equal enthalpy spans on the shifted and on the real table, and are the column sums they are defined as.
Outside (stated in MANIFEST/DESIGN): symbolic temperatures or duties inside the area integral (log-mean differences of ratios of unknowns)
and the unit-count heuristic; the LMTD clauses are decided under C20.
"""
from __future__ import annotations

from symx import h
from symx.runner import Family

from harness import pipeline

PROPERTY = "C15"
LEVEL = "model_checking"
FILES = ["OpenPinch/utils/costing.py", "OpenPinch/analysis/capital_cost_and_area_targeting.py"]


def body_cost(ctx, case):
    from OpenPinch.analysis import capital_cost_and_area_targeting as cc
    from OpenPinch.lib.config import Configuration
    from OpenPinch.utils import costing
    n_units = case["units"]
    cexp = case["exp"]
    A1 = ctx.real("A1", 1, 1e5)
    A2 = ctx.real("A2", 1, 1e5)
    ctx.assume(A2 >= A1 + 1)
    a = ctx.real("a", 0, 1e5)
    b = ctx.real("b", 1, 1e5)
    c1 = costing.compute_capital_cost(A1, n_units, a, b, cexp)
    c2 = costing.compute_capital_cost(A2, n_units, a, b, cexp)
    ref1 = n_units * (a + b * (A1 / n_units) ** cexp)
    ctx.require(h.close(c1, ref1, 1e-9), "capital cost equals N(a + b (A/N)^c)")
    ctx.require(c2 > c1, "capital cost increases with area")
    years = case["years"]
    i = ctx.real("i", 1.0 / 128, 1)
    crf = costing.compute_capital_recovery_factor(i, years)
    annuity = ctx.const(0.0)
    for k in range(1, years + 1):
        annuity = annuity + 1 / ((1 + i) ** k)
    ctx.require(h.close(crf * annuity, 1.0, 1e-9), "capital-recovery factor times the discounted annuities equals one")
    ctx.require(h.conj([crf > 0]), "capital-recovery factor positive")
    ann1 = costing.compute_annual_capital_cost(c1, i, years)
    ann2 = costing.compute_annual_capital_cost(c2, i, years)
    ctx.require(h.close(ann1, c1 * crf, 1e-9), "annualised cost applies the capital-recovery factor")
    ctx.require(ann2 > ann1, "annualised cost increases with area")
    cfg = Configuration()
    cfg.FIXED_COST, cfg.VARIABLE_COST, cfg.COST_EXP, cfg.DISCOUNT_RATE, cfg.SERV_LIFE = a, b, cexp, i, years
    cap, ann = cc.get_capital_cost_targets(A1, n_units, cfg)
    ctx.require(h.conj([h.close(cap, c1, 1e-9), h.close(ann, ann1, 1e-9)]), "get_capital_cost_targets uses the zone's cost parameters")
    ctx.tag("cost laws")
    ctx.note("crf", crf)


def body_balanced(ctx, case):
    from OpenPinch.lib.enums import PT
    site, info, recs = pipeline.run_site(ctx, case)
    names = list(info.keys())
    for zn in names + ["Site"]:
        zone = site.subzones[zn] if zn != "Site" else site
        t = zone.targets[f"{zn}/Direct Integration"]
        for tag, pt in (("shifted", t.pt), ("real", t.pt_real)):
            Hh, Hc = h.col(pt, PT.H_HOT.value), h.col(pt, PT.H_COLD.value)
            Uh, Uc = h.col(pt, PT.H_HOT_UT.value), h.col(pt, PT.H_COLD_UT.value)
            Bh, Bc = h.col(pt, PT.H_HOT_BAL.value), h.col(pt, PT.H_COLD_BAL.value)
            tol = 3e-4      # columns are rounded to 4 dp in place before they are stored
            ctx.require(h.conj([h.close(Bh[k], Hh[k] + Uh[k], tol) for k in range(len(Hh))] + [h.close(Bc[k], Hc[k] + Uc[k], tol) for k in range(len(Hh))]),
                        f"{zn} {tag}: balanced curves are process plus assigned-utility curves")
            ctx.require(h.close(Bh[0] - Bh[-1], Bc[0] - Bc[-1], 4 * tol), f"{zn} {tag}: balanced hot and cold composite curves have equal enthalpy spans")
            ctx.tag("balanced spans compared")


TGRID = {3: [200.0, 150.0, 100.0], 4: [200.0, 180.0, 120.0, 60.0], 5: [250.0, 200.0, 180.0, 120.0, 60.0]}


def body_resistance(ctx, case):
    """get_balanced_CC called directly: per temperature interval, one process and one utility participant on each side, with
    heat-capacity flowrates (family `cp`) or film resistances (family `r`) as z3 reals."""
    import numpy as np
    from OpenPinch.analysis import capital_cost_and_area_targeting as cc
    from OpenPinch.lib.enums import PT
    Ts = TGRID[case["n"]]
    n = len(Ts)
    dT = [0.0] + [Ts[k - 1] - Ts[k] for k in range(1, n)]
    sym_cp = case["sym"] == "cp"
    cps = case.get("cps")      # concrete CPs when the film resistances are symbolic: per interval (hot, hot_ut, cold, cold_ut)
    rs = case.get("rs")        # concrete resistances (hot, hot_ut, cold, cold_ut) when the CPs are symbolic
    CP, R = {}, {}
    for side in ("h", "hu", "c", "cu"):
        j = ("h", "hu", "c", "cu").index(side)
        R[side] = ctx.real(f"r_{side}", 1.0 / 64, 64) if not sym_cp else ctx.const(float(rs[j]))
        CP[side] = [None] * n
        for k in range(1, n):
            if sym_cp:
                v = ctx.real(f"cp_{side}{k}", 0, 100)
                ctx.assume(h.disj([h.close(v, 0.0, 0.0), v >= 1.0 / 8]))      # absent in this interval, or present with a real duty
            else:
                v = ctx.const(float(cps[k - 1][j]))
            CP[side][k] = v
    def cum(side):
        col = [ctx.const(0.0)] * n
        for k in range(n - 2, -1, -1):
            col[k] = col[k + 1] + CP[side][k + 1] * dT[k + 1]
        return col
    def rcp(side):
        return [ctx.const(0.0)] + [CP[side][k] * R[side] for k in range(1, n)]
    arr = (lambda xs: np.array(xs, dtype=object)) if ctx.mode != "concrete" else (lambda xs: np.array([float(x) for x in xs]))
    res = cc.get_balanced_CC(arr(cum("h")), arr(cum("c")), arr(cum("hu")), arr(cum("cu")), arr(dT), arr(rcp("h")), arr(rcp("c")), arr(rcp("hu")), arr(rcp("cu")))
    for tag, a, b, key in (("hot", "h", "hu", PT.R_HOT_BAL.value), ("cold", "c", "cu", PT.R_COLD_BAL.value)):
        Rb = list(res[key])
        conds = [h.close(Rb[0], 0.0, 1e-12)]
        for k in range(1, n):
            q_a, q_b = CP[a][k] * dT[k], CP[b][k] * dT[k]
            tot = q_a + q_b
            # duty-weighted film resistance of the interval: sum_j q_j r_j / sum_j q_j  (0 where the side carries no duty)
            conds.append(h.disj([h.conj([tot <= 1e-6, h.close(Rb[k], 0.0, 1e-12)]),
                                 h.conj([tot > 1e-6, h.close(Rb[k] * tot, q_a * R[a] + q_b * R[b], 1e-9)])]))
            if bool(CP[a][k] > 0) and bool(CP[b][k] > 0):
                ctx.tag("process and utility share an interval")
        ctx.require(h.conj(conds), f"{tag}: interval resistance is the duty-weighted film resistance of the streams and utilities present")
        Hb = list(res[PT.H_HOT_BAL.value if tag == "hot" else PT.H_COLD_BAL.value])
        ctx.require(h.close(Hb[0] - Hb[-1], sum((CP[a][k] * dT[k] + CP[b][k] * dT[k] for k in range(1, n)), ctx.const(0.0)), 1e-9),
                    f"{tag}: balanced curve spans the process plus utility duty")


def body_area(ctx, case):
    """the whole direct-integration pipeline with area targeting on, on a concrete stream / utility template whose film resistances are
    z3 reals: the reported area target against harness/arearef.py (independent balanced composites, enthalpy intervals and LMTDs)."""
    from harness import arearef
    site, info, recs = pipeline.run_site(ctx, case)
    zn = list(info.keys())[0]
    t = site.subzones[zn].targets[f"{zn}/Direct Integration"]
    got = getattr(t, "Area target")
    fl = lambda v: float(h.fl(v))
    hot, cold = [], []
    for st in info[zn]:
        s = st["s"]
        (hot if st["hot"] else cold).append((fl(s.t_max), fl(s.t_min), fl(s.CP), 1 / s.htc))
    for lst, side in ((t.hot_utilities, hot), (t.cold_utilities, cold)):
        for u in lst:
            if fl(u.heat_flow) > 1e-9:
                side.append((fl(u.t_max), fl(u.t_min), fl(u.heat_flow) / (fl(u.t_max) - fl(u.t_min)), 1 / u.htc))
                ctx.tag("utility carries duty")
    ref, ivs = arearef.area(hot, cold)
    # templates where a balanced curve has a temperature gap at the end of an enthalpy interval and the NEXT interval ends with a smaller
    # temperature difference are witnessed (fixed defect 77dabd0: the library used that smaller difference for the interval before the gap)
    gap = False
    for a, b in zip(ivs, ivs[1:]):
        jump = abs(a[3] - b[2]) > 1e-6 or abs(a[5] - b[4]) > 1e-6            # hot or cold curve jumps at the shared enthalpy
        if jump and (b[3] - b[5]) < (a[3] - a[5]) - 1e-9:
            gap = True
    if gap:
        ctx.tag("composite curve with a temperature gap")
    ctx.require(h.close(got, ref, 1e-6 * max(1.0, abs(fl(ref)) if ctx.mode == "concrete" else 1.0) + 1e-4),
                "area target equals the sum over enthalpy intervals of duty x duty-weighted film resistances / counter-current LMTD")
    ctx.require(got > 0, "area target finite and positive")
    # the capital cost reported with it is N(a + b (A/N)^c) of THIS area and the zone's cost parameters (the cost laws themselves: family `cost`)
    n_units = getattr(t, "Units target")
    cap = getattr(t, "Capital cost target")
    cfg = site.subzones[zn].config
    if n_units and n_units > 0:
        ctx.require(h.close(cap, n_units * (cfg.FIXED_COST + cfg.VARIABLE_COST * (got / n_units) ** cfg.COST_EXP), 1e-6 * 1e6),
                    "capital cost target is N(a + b (A/N)^c) of the area target")
        ctx.tag("capital cost compared")
    ctx.tag("area compared")
    ctx.note("area", got)


AREA_SITES = {
    # (ts, tt, cp) per stream; dt_cont 5 everywhere
    "pinched": [(150, 60, 2), (50, 140, 3)],
    "three_streams": [(250, 120, 2), (110, 180, 3), (140, 40, 1)],
    "four_streams": [(180, 80, 3), (130, 40, 1.5), (30, 120, 2), (60, 100, 4)],
    "cold_overlaps_cw": [(180, 60, 2), (25, 100, 1), (30, 90, 0.5)],
}
AREA_UTILS = {
    "hp_cw": [{"type": "Hot", "level": 300, "name": "HP", "r": "sym"}, {"type": "Cold", "level": 20, "name": "CW", "r": "sym"}],
    "ladder": [{"type": "Hot", "level": 300, "name": "HP", "r": "sym"}, {"type": "Hot", "level": 150, "name": "MP", "r": "sym"},
               {"type": "Cold", "level": 20, "name": "CW", "r": "sym"}, {"type": "Cold", "level": 90, "name": "HW", "r": "sym"}],
    "cw_glide": [{"type": "Hot", "level": 300, "name": "HP", "r": "sym"}, {"type": "Cold", "level": 20, "glide": 10, "name": "CW", "r": "sym"}],
    "mp_inside": [{"type": "Hot", "level": 160, "name": "MP", "r": "sym"}, {"type": "Cold", "level": 20, "name": "CW", "r": "sym"}],
}


def cases_area(tier, seed):
    combos = [("pinched", "ladder"), ("three_streams", "hp_cw"), ("cold_overlaps_cw", "cw_glide")]
    if tier != "quick":
        combos += [("pinched", "hp_cw"), ("three_streams", "ladder"), ("four_streams", "ladder"), ("four_streams", "hp_cw"), ("four_streams", "mp_inside"),
                   ("three_streams", "cw_glide"), ("cold_overlaps_cw", "hp_cw")]
    out = []
    for sn, un in combos:
        out.append({"family": "mix", "template": sn, "utilities": un, "options": {"DO_AREA_TARGETING": True},
                    "zones": [[{"ts": a, "tt": b, "cp": c, "dt": 5, "r": "sym"} for a, b, c in AREA_SITES[sn]]], "utils": AREA_UTILS[un]})
    return out


def cases_resistance(tier, seed):
    out = [{"n": 3, "sym": "r", "cps": [(2, 0, 1, 3), (2, 4, 3, 0)]},
           {"n": 3, "sym": "cp", "rs": (0.5, 0.125, 2.0, 0.25)}]
    if tier != "quick":
        out += [{"n": 4, "sym": "r", "cps": [(2, 1, 0, 3), (0, 4, 3, 0.5), (5, 0, 0, 0)]},
                {"n": 4, "sym": "cp", "rs": (1.0, 0.0625, 0.5, 4.0)},
                {"n": 5, "sym": "r", "cps": [(2, 1, 0, 3), (0, 4, 3, 0.5), (5, 0, 0, 0), (1, 1, 1, 1)]}]
    return out


def cases_cost(tier, seed):
    out = []
    years = (1, 2, 3, 5) if tier == "quick" else (1, 2, 3, 4, 5, 6, 8, 10)
    for y in years:
        out.append({"units": 3, "exp": 0.6, "years": y})
    out.append({"units": 1, "exp": 1.0, "years": 2})
    out.append({"units": 7, "exp": 0.8, "years": 4})
    return out


def cases_balanced(tier, seed):
    if tier == "quick":
        return pipeline.sweep_cases(["one_zone_pinched"], what=("ts",), which={(0, 0, "ts")}, opts={"DO_BALANCED_CC": True})
    return (pipeline.sweep_cases(["one_zone_pinched", "two_zone_recovery"], what=("ts", "tt"), opts={"DO_BALANCED_CC": True})
            + pipeline.sweep_cases(["two_zone_recovery"], what=("ts",), utils=pipeline.LADDER_BOTH, opts={"DO_BALANCED_CC": True}))


FAMILIES = [
    Family(name="cost", cases=cases_cost, body=body_cost,
           functions=["compute_capital_cost", "compute_annual_capital_cost", "compute_capital_recovery_factor", "get_capital_cost_targets"], files=FILES,
           bounds="areas A1 + 1 <= A2 in [1,1e5], fixed cost a in [0,1e5], variable cost b in [1,1e5], discount rate in [1/128,1] as z3 reals; unit count in {1,3,7}, exponent in {0.6,0.8,1}, "
                  "service life concrete 1..5 years (thorough 1..10)",
           assumptions=["x^c is an uninterpreted function constrained only by: positive, 1^c = 1, strictly increasing in x for c > 0",
                        "integer powers (1+i)^k are expanded to polynomials; the annuity identity is a rational-function identity decided after gcd cancellation"],
           shim_modules=["OpenPinch.utils.costing", "OpenPinch.analysis.capital_cost_and_area_targeting"], split_paths=0, timeout_ms=60000, reach=["cost laws"]),
    Family(name="resistance", cases=cases_resistance, body=body_resistance, functions=["get_balanced_CC"], files=FILES[1:],
           bounds="get_balanced_CC on tables of 3 rows (thorough: 3-5) on fixed temperature grids, one process and one utility participant per side and interval: either the four film "
                  "resistances are z3 reals in [1/64,64] with concrete heat-capacity flowrates, or the per-interval heat-capacity flowrates are z3 reals (0 or >= 1/8) with concrete resistances",
           assumptions=["floats modelled as exact reals", "interval temperatures concrete", "a participant is absent from an interval (CP = 0) or present with CP >= 1/8"],
           shim_modules=["OpenPinch.analysis.capital_cost_and_area_targeting"], snap="dyadic", split_paths=20, validate_every=3,
           reach=["process and utility share an interval"]),
    Family(name="area", cases=cases_area, body=body_area,
           functions=["get_area_targets", "get_balanced_CC", "_map_interval_resistances_to_tdf", "get_temperature_driving_forces", "_normalise_curve", "_build_h_grid",
                      "_collect_discontinuities", "interp_with_plateaus", "make_monotonic", "compute_LMTD_from_dts", "clean_composite_curve_ends",
                      "_sum_mcp_between_temperature_boundaries", "Stream._calc_htr_and_cp_product"] + pipeline.FUNCS[:12],
           files=FILES[1:] + ["OpenPinch/analysis/temperature_driving_force.py", "OpenPinch/utils/heat_exchanger.py", "OpenPinch/utils/miscellaneous.py"] + pipeline.FILES[:6],
           bounds="the direct-integration pipeline with DO_AREA_TARGETING on concrete stream/utility templates (quick 3, thorough 10: 2-4 process streams; default-style, laddered, "
                  "gliding and in-range utilities) with the film resistance 1/htc of EVERY stream and utility a z3 real in [1/64,64]; temperatures, heat-capacity flowrates and "
                  "hence duties, enthalpy intervals and log-mean temperature differences are concrete per template",
           assumptions=["floats modelled as exact reals", "temperatures and heat-capacity flowrates concrete per template (the area target is linear in the film resistances; "
                        "logarithms are of constants and are evaluated numerically)", "reference: harness/arearef.py"],
           shim_modules=None, snap="dyadic", split_paths=0, validate_every=1, concrete_uf=True, reach=["area compared", "utility carries duty", "composite curve with a temperature gap"]),
    Family(name="balanced", cases=cases_balanced, body=body_balanced, functions=["get_balanced_CC"] + pipeline.FUNCS[:12], files=FILES[1:] + pipeline.FILES[:6],
           bounds="pipeline line sweeps (see C02) with DO_BALANCED_CC on", assumptions=pipeline.ASSUME, shim_modules=None, snap="micro", split_paths=10, validate_every=5,
           reach=["balanced spans compared"]),
]
