"""C15 -- area, exchanger-count and capital-cost targets follow their definitions (the parts within reach).

families:
  cost       compute_capital_cost, compute_annual_capital_cost, compute_capital_recovery_factor, get_capital_cost_targets with
             area / unit count / cost factors / discount rate as z3 reals: C = N(a + b (A/N)^c) (x^c an uninterpreted, strictly
             increasing power function), annualised = C * CRF, CRF * sum_{k=1..n} (1+i)^-k = 1 as a rational-function identity for
             concrete lives n = 1..6 (thorough ..10), both costs strictly increasing in area.
  balanced   the pipeline harness with balanced curves on: the balanced hot and cold composite curves (process + assigned
             utilities) have equal enthalpy spans on the shifted and on the real table, and are the column sums they are defined as.
Not covered (stated in MANIFEST/DESIGN): the area integral itself (get_area_targets: np.interp / make_monotonic epsilon offsets / 6-dp
enthalpy rounding around log-mean differences of ratios of unknowns) and the unit-count heuristic; the LMTD clauses are decided under C20.
"""
from __future__ import annotations

from symx import h
from symx.runner import Family

from harness import pipeline

PROPERTY = "C15"
LEVEL = "model_checking"
FILES = ["OpenPinch/utils/costing.py", "OpenPinch/analysis/capital_cost_and_area_targeting.py"]


def body_cost(ctx, case):
    from OpenPinch.analysis import capital_cost_and_area_targeting as cc
    from OpenPinch.lib.config import Configuration
    from OpenPinch.utils import costing
    n_units = case["units"]
    cexp = case["exp"]
    A1 = ctx.real("A1", 1, 1e5)
    A2 = ctx.real("A2", 1, 1e5)
    ctx.assume(A2 >= A1 + 1)
    a = ctx.real("a", 0, 1e5)
    b = ctx.real("b", 1, 1e5)
    c1 = costing.compute_capital_cost(A1, n_units, a, b, cexp)
    c2 = costing.compute_capital_cost(A2, n_units, a, b, cexp)
    ref1 = n_units * (a + b * (A1 / n_units) ** cexp)
    ctx.require(h.close(c1, ref1, 1e-9), "capital cost equals N(a + b (A/N)^c)")
    ctx.require(c2 > c1, "capital cost increases with area")
    years = case["years"]
    i = ctx.real("i", 1.0 / 128, 1)
    crf = costing.compute_capital_recovery_factor(i, years)
    annuity = ctx.const(0.0)
    for k in range(1, years + 1):
        annuity = annuity + 1 / ((1 + i) ** k)
    ctx.require(h.close(crf * annuity, 1.0, 1e-9), "capital-recovery factor times the discounted annuities equals one")
    ctx.require(h.conj([crf > 0]), "capital-recovery factor positive")
    ann1 = costing.compute_annual_capital_cost(c1, i, years)
    ann2 = costing.compute_annual_capital_cost(c2, i, years)
    ctx.require(h.close(ann1, c1 * crf, 1e-9), "annualised cost applies the capital-recovery factor")
    ctx.require(ann2 > ann1, "annualised cost increases with area")
    cfg = Configuration()
    cfg.FIXED_COST, cfg.VARIABLE_COST, cfg.COST_EXP, cfg.DISCOUNT_RATE, cfg.SERV_LIFE = a, b, cexp, i, years
    cap, ann = cc.get_capital_cost_targets(A1, n_units, cfg)
    ctx.require(h.conj([h.close(cap, c1, 1e-9), h.close(ann, ann1, 1e-9)]), "get_capital_cost_targets uses the zone's cost parameters")
    ctx.tag("cost laws")
    ctx.note("crf", crf)


def body_balanced(ctx, case):
    from OpenPinch.lib.enums import PT
    site, info, recs = pipeline.run_site(ctx, case)
    names = list(info.keys())
    for zn in names + ["Site"]:
        zone = site.subzones[zn] if zn != "Site" else site
        t = zone.targets[f"{zn}/Direct Integration"]
        for tag, pt in (("shifted", t.pt), ("real", t.pt_real)):
            Hh, Hc = h.col(pt, PT.H_HOT.value), h.col(pt, PT.H_COLD.value)
            Uh, Uc = h.col(pt, PT.H_HOT_UT.value), h.col(pt, PT.H_COLD_UT.value)
            Bh, Bc = h.col(pt, PT.H_HOT_BAL.value), h.col(pt, PT.H_COLD_BAL.value)
            tol = 3e-4      # columns are rounded to 4 dp in place before they are stored
            ctx.require(h.conj([h.close(Bh[k], Hh[k] + Uh[k], tol) for k in range(len(Hh))] + [h.close(Bc[k], Hc[k] + Uc[k], tol) for k in range(len(Hh))]),
                        f"{zn} {tag}: balanced curves are process plus assigned-utility curves")
            ctx.require(h.close(Bh[0] - Bh[-1], Bc[0] - Bc[-1], 4 * tol), f"{zn} {tag}: balanced hot and cold composite curves have equal enthalpy spans")
            ctx.tag("balanced spans compared")


def cases_cost(tier, seed):
    out = []
    years = (1, 2, 3, 5) if tier == "quick" else (1, 2, 3, 4, 5, 6, 8, 10)
    for y in years:
        out.append({"units": 3, "exp": 0.6, "years": y})
    out.append({"units": 1, "exp": 1.0, "years": 2})
    out.append({"units": 7, "exp": 0.8, "years": 4})
    return out


def cases_balanced(tier, seed):
    if tier == "quick":
        return pipeline.sweep_cases(["one_zone_pinched"], what=("ts",), which={(0, 0, "ts")}, opts={"DO_BALANCED_CC": True})
    return (pipeline.sweep_cases(["one_zone_pinched", "two_zone_recovery"], what=("ts", "tt"), opts={"DO_BALANCED_CC": True})
            + pipeline.sweep_cases(["two_zone_recovery"], what=("ts",), utils=pipeline.LADDER_BOTH, opts={"DO_BALANCED_CC": True}))


FAMILIES = [
    Family(name="cost", cases=cases_cost, body=body_cost,
           functions=["compute_capital_cost", "compute_annual_capital_cost", "compute_capital_recovery_factor", "get_capital_cost_targets"], files=FILES,
           bounds="areas A1 + 1 <= A2 in [1,1e5], fixed cost a in [0,1e5], variable cost b in [1,1e5], discount rate in [1/128,1] as z3 reals; unit count in {1,3,7}, exponent in {0.6,0.8,1}, "
                  "service life concrete 1..5 years (thorough 1..10)",
           assumptions=["x^c is an uninterpreted function constrained only by: positive, 1^c = 1, strictly increasing in x for c > 0",
                        "integer powers (1+i)^k are expanded to polynomials; the annuity identity is a rational-function identity decided after gcd cancellation"],
           shim_modules=["OpenPinch.utils.costing", "OpenPinch.analysis.capital_cost_and_area_targeting"], split_paths=0, timeout_ms=60000, reach=["cost laws"]),
    Family(name="balanced", cases=cases_balanced, body=body_balanced, functions=["get_balanced_CC"] + pipeline.FUNCS[:12], files=FILES[1:] + pipeline.FILES[:6],
           bounds="pipeline line sweeps (see C02) with DO_BALANCED_CC on", assumptions=pipeline.ASSUME, shim_modules=None, snap="micro", split_paths=10, validate_every=5,
           reach=["balanced spans compared"]),
]
