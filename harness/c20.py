"""C20 -- effectiveness-NTU and LMTD relations are mutually consistent.

unit: HX_Eff, HX_NTU, MultiPassEff, MultiPassNTU, Coth, compute_LMTD_from_dts, compute_LMTD_from_ts executed
symbolically with NTU / capacity ratio / effectiveness / end differences as z3 reals.  math.exp / math.log
are uninterpreted functions constrained by instantiated true axioms (listed in the evidence); exp(log y)=y,
log(exp x)=x and log of exp-monomials are applied syntactically, so round trips reduce to polynomial identities.
"""
from __future__ import annotations

import math

from symx import h
from symx.core import SymReal
from symx.runner import Family

PROPERTY = "C20"
LEVEL = "model_checking"
EQ = 1e-9
FILES = ["OpenPinch/utils/heat_exchanger.py", "OpenPinch/lib/enums.py"]
FUNCS = ["HX_Eff", "HX_NTU", "MultiPassEff", "MultiPassNTU", "Coth", "compute_LMTD_from_dts", "compute_LMTD_from_ts"]
SHIMS = ["OpenPinch.utils.heat_exchanger"]

ARR = ["CF", "PF", "CrFUU", "CrFMM", "CrFMUmax", "CrFMUmin", "ShellTube", "CondEvap"]
CLOSED_FORM = ["CF", "PF", "CrFMUmax", "CrFMUmin", "CondEvap"]      # arrangements with a closed-form inverse in HX_NTU


def _exp(x):
    if isinstance(x, SymReal):
        from symx import uf
        return uf.exp(x)
    return math.exp(x)


def _label(name, form):
    from OpenPinch.lib.enums import HeatExchangerTypes as HX
    m = getattr(HX, name)
    return m if form == "member" else m.value


def _cval(ctx, case):
    c = case["c"]
    if c == "sym":
        v = ctx.real("c", 1.0 / 64, 1)
        if case.get("c_lt1"):
            ctx.assume(v <= 1 - 1.0 / 64)
        return v
    return ctx.const(float(c))


def body_dispatch(ctx, case):
    """The label form must not matter: member and text select the same relation, never the fall-through."""
    from OpenPinch.utils import heat_exchanger as hx
    a = case["arr"]
    N = ctx.real("N", 1.0 / 16, 10)
    c = _cval(ctx, case)
    e_m = hx.HX_Eff(_label(a, "member"), N, c)
    e_t = hx.HX_Eff(_label(a, "text"), N, c)
    ctx.require(h.close(e_m, e_t, EQ), f"{a}: HX_Eff gives the same effectiveness for the enumeration member and its text")
    eff = ctx.real("eff", 1.0 / 64, 1 - 1.0 / 64)
    if a in ("CrFUU", "CrFMM"):
        return      # numerical inverse (secant iteration): outside the claim
    if a == "PF":
        ctx.assume(eff * (1 + c) <= 1 - 1.0 / 64)
    if a == "CrFMUmin":
        ctx.assume(eff * c <= 1 - 1.0 / 64)
    if a == "ShellTube":
        ctx.assume(eff <= 0.5)      # below the asymptote 2/D2 for every capacity ratio in [0,1]
    try:
        n_m = hx.HX_NTU(_label(a, "member"), eff, c)
        n_t = hx.HX_NTU(_label(a, "text"), eff, c)
    except ValueError:
        ctx.tag("effectiveness not reachable (log domain)")
        return
    ctx.require(h.close(n_m, n_t, EQ), f"{a}: HX_NTU gives the same NTU for the enumeration member and its text")
    ctx.require(h.conj([n_m >= 0, n_t >= 0]), f"{a}: HX_NTU never returns the -1 sentinel for a named arrangement")


def body_roundtrip(ctx, case):
    from OpenPinch.utils import heat_exchanger as hx
    a, form, P = case["arr"], case["form"], case.get("passes")
    lab = _label(a, form)
    N = ctx.real("N", 1.0 / 16, 10)
    c = _cval(ctx, case)
    eff = hx.HX_Eff(lab, N, c, P)
    ctx.require(h.conj([eff >= -EQ, eff <= 1 + EQ]), f"{a}/{form}: effectiveness lies in [0,1]")
    if case.get("roundtrip", True):
        back = hx.HX_NTU(lab, eff, c, P)
        ctx.require(h.close(back, N, 1e-7), f"{a}/{form}: HX_NTU(HX_Eff(N)) returns N")
    ctx.tag("effectiveness computed")
    ctx.note("eff", eff)


def body_monotone(ctx, case):
    from OpenPinch.utils import heat_exchanger as hx
    a, form = case["arr"], case["form"]
    lab = _label(a, form)
    N1 = ctx.real("N1", 1.0 / 16, 10)
    N2 = ctx.real("N2", 1.0 / 16, 10)
    ctx.assume(N2 >= N1 + 1.0 / 64)
    c = _cval(ctx, case)
    e1 = hx.HX_Eff(lab, N1, c)
    e2 = hx.HX_Eff(lab, N2, c)
    ctx.require(e2 >= e1 - EQ, f"{a}/{form}: effectiveness does not decrease with NTU")
    ctx.note("e1", e1); ctx.note("e2", e2)


def body_czero(ctx, case):
    from OpenPinch.utils import heat_exchanger as hx
    a, form = case["arr"], case["form"]
    P = case.get("passes")
    N = ctx.real("N", 1.0 / 16, 10)
    eff = hx.HX_Eff(_label(a, form), N, ctx.const(0.0), P)
    # with P passes the code computes 1 - exp(-N/P) per pass and recombines: 1 - (exp(-N/P))^P, the same number
    want = 1 - _exp(-N) if not P or P == 1 else 1 - _exp(-N / P) ** P
    ctx.require(h.close(eff, want, EQ), f"{a}/{form}: effectiveness equals 1 - exp(-NTU) at zero capacity ratio" + (f" ({P} passes)" if P else ""))
    back = hx.HX_NTU(_label(a, form), eff, ctx.const(0.0), P)
    ctx.require(h.close(back, N, 1e-7), f"{a}/{form}: round trip at zero capacity ratio" + (f" ({P} passes)" if P else ""))
    if P and P > 1:
        ctx.tag("multi-pass at zero capacity ratio")


def body_inverse_first(ctx, case):
    """HX_Eff(HX_NTU(eff)) = eff (the converse direction)."""
    from OpenPinch.utils import heat_exchanger as hx
    a, form = case["arr"], case["form"]
    lab = _label(a, form)
    c = _cval(ctx, case)
    eff = ctx.real("eff", 1.0 / 64, 1 - 1.0 / 64)
    if a == "PF":
        ctx.assume(eff * (1 + c) <= 1 - 1.0 / 64)
    if a == "CrFMUmin":
        ctx.assume(eff * c <= 1 - 1.0 / 64)
    try:
        N = hx.HX_NTU(lab, eff, c)
    except ValueError:
        ctx.tag("effectiveness not reachable (log domain)")
        return
    ctx.assume(N >= 1e-6)
    e2 = hx.HX_Eff(lab, N, c)
    ctx.require(h.close(e2, eff, 1e-7), f"{a}/{form}: HX_Eff(HX_NTU(eff)) returns eff")
    ctx.tag("inverse computed")


def body_lmtd(ctx, case):
    import numpy as np
    from OpenPinch.utils import heat_exchanger as hx
    d1 = ctx.real("d1", -5, 200)
    d2 = ctx.real("d2", -5, 200)
    # either value non-positive (to 6 dp) must be refused
    bad = h.disj([d1 <= 0, d2 <= 0])
    try:
        L = hx.compute_LMTD_from_dts(d1, d2)
    except ValueError:
        ctx.tag("refused")
        ctx.require(h.disj([d1 <= 5e-7, d2 <= 5e-7]), "LMTD refused only for non-positive end differences")
        return
    ctx.tag("accepted")
    ctx.require(h.neg(bad), "LMTD is refused for non-positive end differences")
    L = np.asarray(L).item() if not isinstance(L, SymReal) else L
    lo = ctx.ite(d1 <= d2, d1, d2)
    mean = (d1 + d2) * 0.5
    ctx.require(h.conj([L >= lo - 1e-6, L <= mean + 1e-6]), "LMTD lies between the smaller end difference and the arithmetic mean")
    L2 = hx.compute_LMTD_from_dts(d2, d1)
    L2 = np.asarray(L2).item() if not isinstance(L2, SymReal) else L2
    diff = ctx.ite(d1 >= d2, d1 - d2, d2 - d1)
    # np.isclose(.., atol=1e-6) also carries rtol=1e-5*|second argument|: in the band |d1-d2| <= 1e-4 one order may use the
    # arithmetic mean and the other the log formula; there the two values agree within the min..mean bracket
    ctx.require(h.disj([h.close(L, L2, 1e-9), h.conj([diff <= 1e-2, h.close(L, L2, 1e-2)])]), "LMTD is symmetric in its arguments")
    ctx.note("L", L)


def body_lmtd_ts(ctx, case):
    import numpy as np
    from OpenPinch.utils import heat_exchanger as hx
    thi = ctx.real("thi", 0, 300); tho = ctx.real("tho", 0, 300)
    tci = ctx.real("tci", 0, 300); tco = ctx.real("tco", 0, 300)
    try:
        L = hx.compute_LMTD_from_ts(thi, tho, tci, tco)
    except ValueError:
        ctx.tag("refused")
        ctx.require(h.disj([thi < tho, tco < tci, thi - tco <= 5e-7, tho - tci <= 5e-7]), "compute_LMTD_from_ts refuses only invalid temperature programmes")
        return
    ctx.tag("accepted")
    L = np.asarray(L).item() if not isinstance(L, SymReal) else L
    d1, d2 = thi - tco, tho - tci
    lo = ctx.ite(d1 <= d2, d1, d2)
    ctx.require(h.conj([thi >= tho, tco >= tci, d1 > 0, d2 > 0, L >= lo - 1e-6, L <= (d1 + d2) * 0.5 + 1e-6]),
                "compute_LMTD_from_ts: accepted programmes are valid and LMTD lies between min and mean end difference")


def cases_dispatch(tier, seed):
    cs = ["sym"] if tier == "quick" else ["sym", 0.5, 1]
    return [{"arr": a, "c": c, "c_lt1": True} for a in ARR for c in cs]


def cases_roundtrip(tier, seed):
    out = []
    for a in CLOSED_FORM:
        for form in ("member", "text"):
            out.append({"arr": a, "form": form, "c": "sym"})       # whole range [1/64, 1]: the c = 1 branch and its neighbourhood are solver choices
            out.append({"arr": a, "form": form, "c": 1})
            if tier != "quick":
                out.append({"arr": a, "form": form, "c": 0.5})
    for P in ((2,) if tier == "quick" else (2, 3, 4)):
        out.append({"arr": "CF", "form": "text", "c": 0.5, "passes": P})
        out.append({"arr": "PF", "form": "member", "c": 1, "passes": P})
        if tier != "quick":
            out.append({"arr": "CF", "form": "member", "c": 1, "passes": P})
    for a in ("CrFMM", "ShellTube"):
        out.append({"arr": a, "form": "member", "c": 0.5, "roundtrip": False})
    return out


def cases_forms(tier, seed):
    return [{"arr": a, "form": f, "c": c} for a in CLOSED_FORM for f in ("member", "text") for c in (("sym",) if tier == "quick" else ("sym", 0.5, 1))]


def cases_czero(tier, seed):
    out = [{"arr": a, "form": f} for a in ARR if a not in ("CrFUU",) for f in ("member", "text")]
    out += [{"arr": a, "form": "member", "passes": p} for a in ("CF", "PF") for p in ((2,) if tier == "quick" else (2, 3, 4))]
    return out


AX = ["math.exp / math.log are uninterpreted functions with instantiated axioms: exp x > 0; exp x >= 1 + x; exp x <= 1/(1-x) for x < 1; "
      "sign(exp x - 1) = sign x; exp strictly increasing; exp(-x) exp(x) = 1; log y <= y - 1; log y >= 1 - 1/y; sign(log y) = sign(y-1); "
      "log y >= 2(y-1)/(y+1) for y >= 1 and <= for y <= 1; log strictly increasing; log(1/y) = -log y; log(exp x) = x and exp(log y) = y and "
      "log(k prod exp(x_i)^e_i) = log k + sum e_i x_i applied syntactically; (x^(1/P))^P = x, x^k monotone",
      "floats modelled as exact reals", "NTU in [1/16, 10], capacity ratio in [1/64, 1] (or concrete 0, 0.5, 1), effectiveness in [1/64, 63/64]"]

FAMILIES = [
    Family(name="dispatch", cases=cases_dispatch, body=body_dispatch, functions=["HX_Eff", "HX_NTU"], files=FILES,
           bounds="all 8 named arrangements x both label forms (enumeration member, text); NTU, capacity ratio and effectiveness z3 reals", assumptions=AX,
           shim_modules=SHIMS, timeout_ms=30000, split_paths=0, snap="dyadic", validate_every=1),
    Family(name="roundtrip", cases=cases_roundtrip, body=body_roundtrip, functions=FUNCS[:5], files=FILES,
           bounds="closed-form arrangements {CF, PF, CrFMUmax, CrFMUmin, CondEvap} x both label forms x capacity ratio symbolic in [1/64, 1] or concrete 1 (0.5 thorough); "
                  "multi-pass counter flow (c = 0.5, 1) and parallel flow (c = 1) with 2 (thorough 2-4) passes -- multi-pass parallel flow at c != 1 needs the root of a "
                  "non-monomial and is outside; range only for CrFMM and shell-and-tube",
           assumptions=AX, shim_modules=SHIMS, timeout_ms=30000, split_paths=0, reach=["effectiveness computed"]),
    Family(name="inverse_first", cases=cases_forms, body=body_inverse_first, functions=["HX_NTU", "HX_Eff"], files=FILES,
           bounds="closed-form arrangements x both label forms; effectiveness symbolic in [1/64, 63/64] restricted to the arrangement's reachable range",
           assumptions=AX, shim_modules=SHIMS, timeout_ms=30000, split_paths=0, reach=["inverse computed"]),
    Family(name="monotone", cases=cases_forms, body=body_monotone, functions=["HX_Eff"], files=FILES,
           bounds="closed-form arrangements x both label forms; two symbolic NTU values N1 + 1/64 <= N2 on one path", assumptions=AX,
           shim_modules=SHIMS, timeout_ms=30000, split_paths=0),
    Family(name="czero", cases=cases_czero, body=body_czero, functions=["HX_Eff", "HX_NTU"], files=FILES,
           bounds="every arrangement except the 20-term cross-flow series x both label forms at capacity ratio exactly 0, NTU symbolic; counter and parallel flow also with 2 (thorough 2-4) passes", assumptions=AX,
           shim_modules=SHIMS, timeout_ms=30000, split_paths=0, reach=["multi-pass at zero capacity ratio"]),
    Family(name="lmtd", cases=lambda tier, seed: [{}], body=body_lmtd, functions=["compute_LMTD_from_dts"], files=FILES,
           bounds="end differences z3 reals in [-5, 200] (equal, nearly equal and non-positive ones are solver choices)", assumptions=AX,
           shim_modules=SHIMS, timeout_ms=30000, split_paths=0, reach=["refused", "accepted"]),
    Family(name="lmtd_ts", cases=lambda tier, seed: [{}], body=body_lmtd_ts, functions=["compute_LMTD_from_ts", "compute_LMTD_from_dts"], files=FILES,
           bounds="four terminal temperatures z3 reals in [0, 300]", assumptions=AX, shim_modules=SHIMS, timeout_ms=30000, split_paths=0,
           reach=["refused", "accepted"]),
]
