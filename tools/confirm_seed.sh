#!/bin/sh
# usage: tools/confirm_seed.sh <ID>   (worktree /tmp/wt_<ID> with the change applied, demo_<ID>.py, patch_<ID>.diff)
# no `git stash`: the stash is shared by all worktrees of a repository
ID=$1; W=/tmp/wt_$ID
cd $W || exit 9
git diff -- OpenPinch > /tmp/cur_$ID.diff
cmp -s /tmp/cur_$ID.diff patch_$ID.diff && echo "--- $ID: worktree diff == patch file" || echo "--- $ID: WARNING worktree diff differs from patch_$ID.diff"
echo "--- suite with change"; /venv/bin/python -m pytest -q -p no:cacheprovider --timeout=900 2>&1 | tail -1
echo "--- demo with change"; /venv/bin/python demo_$ID.py > /tmp/demo_with_$ID.txt 2>&1; echo "exit=$?"
git apply -R /tmp/cur_$ID.diff || exit 9
echo "--- demo without change"; /venv/bin/python demo_$ID.py > /tmp/demo_without_$ID.txt 2>&1; echo "exit=$?"
git apply /tmp/cur_$ID.diff
