#!/bin/sh
# usage: tools/confirm_seed.sh <ID>   (worktree /tmp/wt_<ID> with patch applied, demo_<ID>.py, patch_<ID>.diff)
ID=$1; W=/tmp/wt_$ID
cd $W || exit 9
echo "--- $ID: suite with change"; /venv/bin/python -m pytest -q -p no:cacheprovider --timeout=900 2>&1 | tail -1
echo "--- demo with change"; /venv/bin/python demo_$ID.py > /tmp/demo_with.txt 2>&1; echo "exit=$?"
git stash -q -- OpenPinch
echo "--- demo without change"; /venv/bin/python demo_$ID.py > /tmp/demo_without.txt 2>&1; echo "exit=$?"
git stash pop -q
