#!/bin/sh
# usage: tools/try_seed.sh <patch.diff> <tier> <PROP> [PROP...]   -- apply a seeded change, run the listed checks, undo.
# The change is applied to $SEED_REPO (default /repo; a scratch worktree of /repo when a long run is using /repo itself) and the checks
# are pointed at it through OPENPINCH_REPO.
set -u
PATCH="$1"; TIER="$2"; shift 2
R=${SEED_REPO:-/repo}
cd "$R" || exit 9
if [ -n "$(git status --porcelain -- OpenPinch)" ]; then echo "repo not clean"; exit 9; fi
git apply "$PATCH" || { echo "patch does not apply"; exit 9; }
cd /verif
for P in "$@"; do
  OPENPINCH_REPO="$R" .venv/bin/python run.py "$P" --tier "$TIER" > /tmp/seed_$P.log 2>&1; rc=$?
  echo "== $P ($TIER) exit=$rc"; grep -v Warning /tmp/seed_$P.log | grep "VIOLATION\|INCONCLUSIVE\|KNOWN-FINDING\|^\[C" | cut -c1-260 | head -6
done
cd "$R" && git checkout -- OpenPinch && git status --porcelain -- OpenPinch | head -2
git -C /verif checkout -- evidence 2>/dev/null; git -C /verif clean -fdq evidence/replays 2>/dev/null   # seeded runs rewrite evidence: restore the committed files
