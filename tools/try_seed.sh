#!/bin/sh
# usage: tools/try_seed.sh <patch.diff> <tier> <PROP> [PROP...]   -- apply a seeded change to /repo, run the listed checks, undo.
set -u
PATCH="$1"; TIER="$2"; shift 2
cd /repo || exit 9
if [ -n "$(git status --porcelain -- OpenPinch)" ]; then echo "repo not clean"; exit 9; fi
git apply "$PATCH" || { echo "patch does not apply"; exit 9; }
cd /verif
for P in "$@"; do
  .venv/bin/python run.py "$P" --tier "$TIER" > /tmp/seed_$P.log 2>&1; rc=$?
  echo "== $P ($TIER) exit=$rc"; grep -v Warning /tmp/seed_$P.log | grep "VIOLATION\|INCONCLUSIVE\|KNOWN-FINDING\|^\[C" | cut -c1-260 | head -6
done
cd /repo && git checkout -- OpenPinch && git status --porcelain -- OpenPinch | head -2
