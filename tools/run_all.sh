#!/bin/sh
# usage: tools/run_all.sh quick|thorough [IDs...]   -- runs the registered checks sequentially, prints one summary line each
TIER=${1:-quick}; shift
cd /verif
IDS=${*:-$(python3 -c "import json; print(' '.join(c['property_id'] for c in json.load(open('MANIFEST.json'))['checks']))")}
for P in $IDS; do
  .venv/bin/python run.py $P --tier $TIER > /tmp/all_$P.log 2>&1; rc=$?
  echo "$P exit=$rc $(grep -v Warning /tmp/all_$P.log | grep '^\[C' | cut -c1-230)"
  grep -v Warning /tmp/all_$P.log | grep "VIOLATION\|INCONCLUSIVE" | cut -c1-300 | head -4
done
