#!/bin/sh
# usage: tools/coverage_gaps.sh [tier] [IDs...]  -- line coverage of /repo/OpenPinch reached by the registered checks (all engine
# contexts: symbolic, lifted, concrete validation/replay workers).  A development aid for finding anchored code no harness executes;
# it decides nothing.  Output: /tmp/cov/report.txt and per-file missing lines.
TIER=${1:-quick}; shift
cd /verif
IDS=${*:-$(python3 -c "import json; print(' '.join(c['property_id'] for c in json.load(open('MANIFEST.json'))['checks']))")}
rm -rf /tmp/cov; mkdir -p /tmp/cov
cat > /tmp/cov/rc <<EOC
[run]
parallel = True
concurrency = multiprocessing
source = /repo/OpenPinch
data_file = /tmp/cov/data
sigterm = True
EOC
for P in $IDS; do
  COVERAGE_RCFILE=/tmp/cov/rc COVERAGE_PROCESS_START=/tmp/cov/rc .venv/bin/python -m coverage run --rcfile=/tmp/cov/rc run.py $P --tier $TIER > /tmp/cov/$P.log 2>&1
  echo "$P exit=$? $(grep '^\[C' /tmp/cov/$P.log | cut -c1-160)"
done
.venv/bin/python -m coverage combine --rcfile=/tmp/cov/rc > /dev/null 2>&1
.venv/bin/python -m coverage report --rcfile=/tmp/cov/rc -m > /tmp/cov/report.txt 2>&1
tail -1 /tmp/cov/report.txt
