#!/usr/bin/env python3
"""Regenerate /verif/MANIFEST.json from the table below (keeps the file schema-valid at all times)."""
import json
import os

VERIF = os.path.dirname(os.path.dirname(os.path.abspath(__file__)))
PY = ".venv/bin/python"

ENGINE_NOTE = ("Trusted base: z3 5.1.0; the symx engine (SymReal arithmetic, NumPy shim, explorer) -- every run "
               "differentially validates it by pushing path models through the engine with constants and through the "
               "unmodified float code; floats are modelled as exact reals (IEEE rounding outside the claim); bounds as "
               "stated in the evidence file.")

PIPE_NOTE = "Bounds: line sweeps (one stream temperature / dT_cont / duty a z3 real over its whole range on fixed site templates of 1-2 process zones and 2-3 streams, default utilities or explicit isothermal ladders) plus small fully symbolic sites in the thorough tier; distinct breakpoints equal or >= 0.25 K apart; zone tree built directly (labels are C10's subject); pydantic UtilitySchema replaced by an attribute bag while the real default-utility code runs. "

CHECKS = {
    "C08": dict(
        category="model_checking",
        text="Bounded symbolic execution of the real ProblemTable.insert_temperature_interval (and every helper below it) "
             "from an arbitrary valid table: row temperatures, offsets and insertion requests are z3 reals, every feasible "
             "path is enumerated and the negated post-condition (curves unchanged, rows strictly descending, dT/dH "
             "bookkeeping, return count, idempotent re-insertion) is discharged per path. The post-state satisfies the "
             "assumed table invariant, so the single-call result is an induction step for call sequences; 2-call sequences "
             "are also explored explicitly.",
        design_ref="5/C08",
        note="Tables of 2-5 rows, 1-4 insertions, per-interval heat-capacity flowrates concrete (fixed vectors), "
             "temperatures and offsets symbolic. " + ENGINE_NOTE,
        technique="solver-based path-exhaustive symbolic execution of the real code (z3, QF_LRA per path)",
    ),
    "C07": dict(
        category="model_checking",
        text="Bounded symbolic execution of the real get_additional_GCCs / get_GCC_without_pockets (with the real "
             "insert_temperature_interval underneath) on arbitrary grand composite curves given as constant-slope tables: "
             "every slope-sign vector is enumerated, temperature gaps, top temperature and offset are z3 reals, the solver "
             "places the pinch(es). Per path the negated running-minimum oracle is discharged at every output row AND at "
             "every mid-point between output rows (a missing closing breakpoint is visible only there), plus the load-profile clauses.",
        design_ref="5/C07",
        note="2-6 rows complete over {-1,0,+1} slopes, +-1 slopes to 8 rows (thorough); unit slope magnitude (1/128 and 128 in the "
             "thorough tier); distinct H values >= 1e-3 apart (tolerance band outside). " + ENGINE_NOTE,
        technique="solver-based path-exhaustive symbolic execution of the real code (z3, QF_LRA per path) against a running-minimum oracle",
    ),
    "C01": dict(
        category="model_checking",
        text="Bounded symbolic execution of the real Stream, StreamCollection, create_problem_table_with_t_int, "
             "_sum_mcp_between_temperature_boundaries, problem_table_algorithm and get_process_heat_cascade: stream temperatures "
             "and dT_cont (family T) or duties (family Q) are z3 reals, every feasible ordering/coincidence of the breakpoints is a "
             "path, and per path the negated statement 'Qh = max(0, max_b D(b)), Qc = Qh - cold + hot, Qr = hot - Qc' against an "
             "independent closed-form cascade is discharged.",
        design_ref="5/C01",
        note="1-2 streams fully symbolic (3 in the thorough tier with concrete dT_cont); CP concrete in family T, temperatures "
             "concrete in family Q; breakpoints closer than 1e-4 K but not equal form the recorded region near_tie. " + ENGINE_NOTE,
        technique="solver-based path-exhaustive symbolic execution of the real code (z3, linear real arithmetic per path)",
    ),
    "C05": dict(
        category="model_checking",
        text="Same symbolic execution as C01, for BOTH the shifted and the real-temperature table including the rows added by "
             "constant-enthalpy projection: per path and per table row the negated obligations H_hot(T_k) = exact heat content of "
             "the hot streams below T_k, same for cold up to one common offset, net = cold - hot >= 0 touching zero, spans = duties, "
             "dT/CP/dH columns consistent row by row, real table reporting the shifted Qh/Qc/Qr are discharged by z3.",
        design_ref="5/C05",
        note="Bounds as C01. Tables are read before the in-place 4-dp display rounding. " + ENGINE_NOTE,
        technique="solver-based path-exhaustive symbolic execution of the real code (z3) against an exact per-row integral",
    ),
    "C06": dict(
        category="model_checking",
        text="(a) ProblemTable.pinch_idx / pinch_temperatures / the pinch part of EnergyTarget.serialize_json executed symbolically "
             "on arbitrary residual columns (every entry a z3 real that is 0 or >= 2e-6, temperatures symbolic): all 2^n zero patterns "
             "are paths, the first/last-zero and threshold-run clauses are discharged per path. (b) the cascade harness of C01 with "
             "the obligation that reported pinch temperatures are zeros of the exact residual and bracket every other zero.",
        design_ref="5/C06",
        note="(a) 2-6 rows quick, 2-9 thorough; (b) bounds as C01 (shifted table). Recorded finding: all-zero column reported as 'no pinch'. " + ENGINE_NOTE,
        technique="solver-based path-exhaustive symbolic execution of the real code (z3)",
    ),
    "C19": dict(
        category="model_checking",
        text="Stream: the real constructor and every solver-chosen sequence of 1-3 public assignments (t_supply, t_target, "
             "heat_flow, dt_cont, htc, set_heat_flow) are executed symbolically with all values as z3 reals; after the constructor and "
             "after every assignment the negated invariant (CP x span = duty, t_min <= t_max, shifted bounds follow the kind, "
             "htr x htc = 1, bounds are the supply/target temperatures) is discharged. StreamCollection: every solver-chosen sequence "
             "of 1-3 operations over a clash-prone name pool with symbolic sort keys, checked against an independent member model.",
        design_ref="5/C19",
        note="Sequences up to 2 ops (quick) / 3 ops (thorough); names are a finite pool {S,S_1,T}, not unbounded strings; "
             "htc > 0 on assignment. " + ENGINE_NOTE,
        technique="solver-based path-exhaustive symbolic execution of the real code (z3), operation sequences as solver choices",
    ),
    "C20": dict(
        category="model_checking",
        text="HX_Eff, HX_NTU, MultiPassEff/NTU, Coth and the two LMTD functions are executed symbolically with NTU, capacity ratio, "
             "effectiveness and end differences as z3 reals; exp/log are uninterpreted functions under instantiated true axioms with "
             "syntactic inverse rules, so each round trip, the [0,1] range, monotonicity in NTU, the c = 0 limit, label-form "
             "independence (member vs text, never the fall-through / -1 sentinel), LMTD bracket, symmetry and refusal become "
             "polynomial/UF queries that z3 decides unsat or answers with a concrete (NTU, c) that is replayed on the float code.",
        design_ref="5/C20",
        note="Closed-form arrangements only for round trips (cross-flow unmixed series and the secant inversion are outside); "
             "'never exceeds counter flow' needs convexity of exp and is outside; shell-and-tube: dispatch and range only. "
             "Axioms listed verbatim in the evidence. " + ENGINE_NOTE,
        technique="solver-based symbolic execution of the real code with exp/log as uninterpreted functions + axioms (z3 NRA/UF)",
    ),
    "C02": dict(
        category="model_checking",
        text="The whole targeting pipeline of a site (main._get_site_targets -> direct integration of every zone, zone summation, "
             "total-site cascade, record serialisation) is executed symbolically; per feasible path and per returned record the negated "
             "first-law obligations (Qh - Qc = cold - hot duty, Qr = hot duty - Qc, all >= 0, listed utility duties differ by Qh - Qc) "
             "are discharged by z3 against the input duties.",
        design_ref="5/C02", note=PIPE_NOTE + ENGINE_NOTE,
        technique="solver-based path-exhaustive symbolic execution of the real pipeline (z3, linear real arithmetic per path)",
    ),
    "C03": dict(
        category="model_checking",
        text="Same symbolic execution of the pipeline incl. the real default-utility decision/placement code; per path the negated "
             "obligations 'hot utility duties sum to Qh, cold to Qc, each >= 0' for every direct-integration and total-process record and "
             "'the total-process record lists utility by utility the sum of its zones' are discharged.",
        design_ref="5/C03", note=PIPE_NOTE + ENGINE_NOTE,
        technique="solver-based path-exhaustive symbolic execution of the real pipeline (z3)",
    ),
    "C04": dict(
        category="model_checking",
        text="Same symbolic execution; per path (i) 0 <= H_net_ut <= H_net_actual at every row of every zone's shifted table and (ii) for "
             "explicit isothermal ladders the closed-form optimum 'k-th lowest-grade utility carries min(total, NP(level)) minus what is "
             "already assigned' (NP read at the utility's own table row) are discharged.",
        design_ref="5/C04", note=PIPE_NOTE + "Glide utilities: not covered. Tables are read after the in-place 4-dp rounding (tolerance 2e-4). " + ENGINE_NOTE,
        technique="solver-based path-exhaustive symbolic execution of the real pipeline (z3) against a closed-form optimum",
    ),
    "C09": dict(
        category="model_checking",
        text="Same symbolic execution on sites with two process zones; per path: total-process record = sum of zone records (values and "
             "per utility), DI_site <= TS <= sum of zones for Qh and Qc, Qr_TS = sum Qr_zones + (Qh_TZ - Qh_TS).",
        design_ref="5/C09", note=PIPE_NOTE + "3-4 zones and nested sites are outside the bound. " + ENGINE_NOTE,
        technique="solver-based path-exhaustive symbolic execution of the real pipeline (z3)",
    ),
    "C10": dict(
        category="model_checking",
        text="The real prepare_problem (tree synthesis, label rewriting, nested zone creation, stream-to-zone matching, bottom-up "
             "aggregation, per-zone utility copies) is executed with stream duties as z3 reals and every stream's zone label and name "
             "as solver choices from collision-prone pools; per path the negated conservation statement -- for every zone, hot and cold "
             "duty (linear forms in the unknown duties) and stream count equal those of the streams labelled into it; one generated "
             "leaf per stream; no stream object in two leaves; independent utility copies -- is discharged.",
        design_ref="5/C10",
        note="2-3 streams; labels from a 12-element pool (9 with the fixed user tree), names from {S,S_1}: finite-domain symbolic, not "
             "unbounded strings. Recorded finding: label naming a non-leaf zone of a user tree. " + ENGINE_NOTE,
        technique="solver-based path-exhaustive symbolic execution of the real code (z3); labels as finite-domain solver choices",
    ),
    "C13": dict(
        category="model_checking",
        text="The real curve-cleaning and graph-building functions (clean_composite_curve_ends, clean_composite_curve, _graph_cc, "
             "_build_gcc_segments, _iter_gcc_segment_slices, _segment_bounds, _classify_segment, _create_curve) are executed symbolically on "
             "arbitrary composite and grand-composite columns (enthalpies z3 reals, flat runs and repeats solver-chosen); per path: every "
             "emitted point on the curve within display rounding, interpolation through the emitted points recovers every table row of the "
             "non-flat extent within 0.01, segments join without gaps, class follows the sign of the enthalpy change. A second family runs the "
             "pipeline and get_output_graph_data: one graph set per record keyed by its name, documented graph types, curve span = stream duty.",
        design_ref="5/C13",
        note="Curves of 3-6 rows on fixed temperature grids; consecutive enthalpies equal or >= 0.5 apart; 2-dp rounding over-approximated; in the "
             "record family redundant-point removal is an identity stub (its own family covers it). Balanced/total-site curve families are "
             "covered only through the record-level obligations. " + ENGINE_NOTE,
        technique="solver-based path-exhaustive symbolic execution of the real code (z3, linear real arithmetic per path)",
    ),
    "C11": dict(
        category="model_checking",
        text="Induction step over call histories: the real main.pinch_analysis_service is executed symbolically (one stream "
             "temperature a z3 real, input as dictionary and as a reused validated model) and on every feasible path the deep structural "
             "snapshot of the package state (data globals, function defaults incl. mutable default arguments, plain class attributes of every "
             "loaded OpenPinch module) after the call equals the one before, the caller's input object is unchanged, and in an explicit "
             "A, B, A history the third result equals the first, the first result object is untouched and every result's graph sets are "
             "exactly its own records. State-preservation per call gives history independence for histories of any length.",
        design_ref="5/C11",
        note="Problems of two streams; pydantic TargetInput/TargetOutput/UtilitySchema are pass-through stand-ins in symbolic runs (the concrete "
             "replay of every 4th path model runs the real validation); PinchProblem load/target/export sequences are C16's part. " + ENGINE_NOTE,
        technique="solver-based symbolic execution of the real service (z3) with a structural state-snapshot invariant (induction step)",
    ),
    "C14": dict(
        category="model_checking",
        text="The real main.pinch_analysis_service is executed symbolically on degenerate-but-legal problem shapes with one temperature a z3 "
             "real over [0,500], crossed with solver-chosen option vectors. Every feasible path is a proof obligation: an exception raised by "
             "the library on a feasible path is a counterexample (replayed on the unmodified code); all reported numbers finite; unique "
             "record names with one direct-integration record per zone; every reported temperature inside the input envelope widened by the "
             "contributions. Schema validity and JSON round trip are checked on the concrete replay of path models through real pydantic "
             "(path-coverage-directed witnesses, not a for-all).",
        design_ref="5/C14",
        note="9 shapes x 5 option vectors (quick: 6 shapes x 1-3 vectors); area, heat-pump, turbine and exergy options excluded (scipy/CoolProp); "
             "pydantic stand-ins and identity curve cleaning during symbolic runs. " + ENGINE_NOTE,
        technique="solver-based path-exhaustive symbolic execution of the real service (z3); exceptions on feasible paths are counterexamples",
    ),
    "C17": dict(
        category="model_checking",
        text="clean_composite_curve(_ends) on polylines with concrete temperatures and z3-real enthalpies, and _rdp / "
             "get_piecewise_data_points on polylines with concrete abscissae and z3-real ordinates, are executed symbolically; per path: kept "
             "points are original points in order, ends (first/last non-flat points) kept, every removed point within 1e-6 K (clean) / within "
             "the deviation tolerance in perpendicular distance (RDP, ||chord|| as uninterpreted sqrt with s*s = arg) of the simplified "
             "polyline, and the one-sided tenth-of-tolerance clause.",
        design_ref="5/C17",
        note="3-6 points (clean), 3-5 points (RDP); the SLSQP refinement that the code runs only when more than 10 points survive is outside "
             "reach (scipy). Two recorded findings: chained removal accumulates deviation; no one-sided refinement below 11 points. " + ENGINE_NOTE,
        technique="solver-based path-exhaustive symbolic execution of the real code (z3; sqrt as uninterpreted function with defining axiom)",
    ),
    "C16": dict(
        category="model_checking",
        text="(1) the real service on one symbolic problem given as dictionary, validated model and value-with-unit numbers on the same path: "
             "identical records; (2) get_value with a symbolic magnitude; (3) PinchProblem under every solver-chosen sequence of 3-5 "
             "load/target/export calls with the service stubbed: result of the problem currently loaded, cached object on repetition; "
             "(4) _unique_sheet_name with symbolic characters around the 31-character cut: unique, 1..31 chars, no forbidden character. JSON "
             "file, CSV directory/pair, a workbook with the template sheets and the wrapper are compared on the concrete replay of path models (path-directed witnesses).",
        design_ref="5/C16",
        note="File parsers (JSON, CSV, openpyxl) are compiled / binary-format code: they are exercised on concrete path models only, not symbolically; the .xlsb variant is not exercised. Sheet-name characters and wrapper "
             "operations are finite-domain symbolic. " + ENGINE_NOTE,
        technique="solver-based symbolic execution of the real code (z3); finite-domain solver choices for characters and call sequences",
    ),
    "C12": dict(
        category="model_checking",
        text="The real service runs twice on one path -- on a problem with one symbolic quantity and on its transformed twin -- and the "
             "records (Qh, Qc, Qr, per-utility duties, pinch temperatures) are compared as terms by z3: stream permutation, zone renaming and "
             "reordering, stream split at a symbolic intermediate temperature, parallel split, translation by a symbolic shift (pinches move by "
             "the shift), mirroring of the temperature axis with hot <-> cold (Qh <-> Qc, pinches mirrored and swapped).",
        design_ref="5/C12",
        note="Templates of 2-3 streams in 1-2 zones with default utilities. Uniform duty scaling is NOT covered (absolute tolerances make "
             "sub-tolerance residual bands scale-dependent; reals-model counterexamples there are not replayable on the 1e-6 K lattice); graph "
             "data equality is not compared. " + ENGINE_NOTE,
        technique="solver-based relational (twin-run) symbolic execution of the real service (z3)",
    ),
    "C15": dict(
        category="model_checking",
        text="(1) compute_capital_cost / compute_annual_capital_cost / compute_capital_recovery_factor / "
             "get_capital_cost_targets executed symbolically with area, cost factors and discount rate as z3 reals: C = N(a + b (A/N)^c), "
             "annualised = C x CRF, CRF x sum_k (1+i)^-k = 1 (rational-function identity for concrete lives), both strictly increasing in "
             "area (x^c as a monotone uninterpreted function). (2) get_balanced_CC with film resistances or heat-capacity flowrates as z3 reals: "
             "every interval resistance is the duty-weighted film resistance of the participants present. (3) the whole direct-integration "
             "pipeline with area targeting on, on concrete stream/utility templates with the film resistance of EVERY stream and utility a z3 real: "
             "the reported area target equals an independent reference (harness/arearef.py: balanced composites, enthalpy intervals, "
             "counter-current LMTD from the streams and utility duties), is positive, and the capital cost is N(a + b(A/N)^c) of it. "
             "(4) pipeline sweeps with balanced curves on: balanced hot and cold composite curves are process + utility columns and have "
             "equal enthalpy spans on the shifted and the real table.",
        design_ref="5/C15, 8",
        note="Bounded as stated: in (3) temperatures and heat-capacity flowrates are concrete per template (3 quick / 10 thorough), so the enthalpy "
             "intervals and log-mean differences are constants and only the film resistances are quantified by the solver; symbolic temperatures or duties "
             "inside the area integral (log-mean differences of ratios of unknowns) stay outside, as does the exchanger-count heuristic; the "
             "LMTD clauses are decided under C20. " + ENGINE_NOTE,
        technique="solver-based symbolic execution of the real code (z3; power law as monotone uninterpreted function, annuity as rational identity)",
    ),
    "C18": dict(
        category="model_checking",
        text="SimpleHeatPumpCycle.solve, the metrics, COP_h/COP_r and build_stream_collection (all three request orders as a solver "
             "choice) are executed symbolically with evaporating/condensing temperature, superheat and subcooling as z3 reals. CoolProp's "
             "compiled state object is replaced by uninterpreted state functions constrained by a listed contract of identities true for "
             "every pure fluid (plus one stated domain assumption, dropped in the heavy-fluid cases); per path: Q_cond = Q_evap + W, W > 0, COP_h = COP_r + 1, entropy "
             "non-decreasing over compression and throttling, H3 = H2, saturation pressures, stream sets carry exactly the duties, are "
             "monotone and order-independent. Every third path model is re-run on the real CoolProp library (water, n-pentane for wet "
             "compressor discharge, D4 for condenser-liquid-above-evaporator-vapour cycles; ammonia in the thorough tier) and must satisfy the same obligations.",
        design_ref="5/C18",
        note="'All refrigerants' is covered as 'any fluid satisfying the contract' (listed verbatim in the evidence); the numerical quality of "
             "CoolProp, trans-critical cycles, the IHX (ihx_gas_dt > 0) and heat_pump_targeting.py (scipy optimisers) are outside. Compressor "
             "efficiency and duty are concrete per case (the cycle is linear in the duty). " + ENGINE_NOTE,
        technique="solver-based symbolic execution of the real code with the property library as uninterpreted functions + contract (z3 UF+LRA)",
    ),
}

NOT_YET = {
}


def main():
    props = [json.loads(l) for l in open(os.path.join(VERIF, "properties.jsonl"))]
    checks = []
    na = []
    for p in props:
        pid = p["id"]
        c = CHECKS.get(pid)
        if c is None:
            na.append({"property_id": pid, "reason": NOT_YET.get(pid, "check not built yet in this round (planned in DESIGN.md section 5); nothing is claimed")})
            continue
        checks.append({
            "property_id": pid,
            "quick_cmd": f"{PY} run.py {pid} --tier quick",
            "thorough_cmd": f"{PY} run.py {pid} --tier thorough",
            "evidence_file": f"evidence/{pid}.json",
            "replay_cmd_template": f"{PY} run.py --replay {{path}}",
            "engine": c.get("engine", "symx"),
            "level_claimed": {"category": c["category"], "text": c["text"], "design_ref": c["design_ref"]},
            "level_note": c["note"],
            "technique": c["technique"],
        })
    man = {
        "version": 1,
        "setup_cmd": "sh setup.sh",
        "hooks": {
            "guard": "OPENPINCH_VERIF",
            "enable": "no source hooks: the checks rebind module globals (np, isinstance, float, round, math) of the analysed OpenPinch modules from outside at run time; OPENPINCH_VERIF=1 is exported by run.py but nothing in /repo reads it",
            "baseline_off_cmd": "cd /repo && /venv/bin/python -m pytest -ra -q -p no:cacheprovider --timeout=900 --continue-on-collection-errors",
            "source_commits": [],
            "add_only": True,
        },
        "engines": [
            {"name": "symx", "path": "symx/", "serves_properties": sorted(k for k, v in CHECKS.items() if v.get("engine", "symx") == "symx"),
             "kind_free_text": "path-exploring symbolic executor that runs the repository's own functions on NumPy object arrays of exact symbolic reals; z3 decides every branch and every property obligation; counterexamples are replayed on the unmodified float code"},
            {"name": "crosshair", "path": "harness/", "serves_properties": sorted(k for k, v in CHECKS.items() if v.get("engine") == "crosshair"),
             "kind_free_text": "CrossHair 0.0.110 symbolic execution of pure-Python string/container code"},
        ],
        "checks": checks,
        "notes": "Fix commits made in /repo are listed in known_findings.json (fixed: lines). See DESIGN.md.",
        "not_applicable": na,
    }
    with open(os.path.join(VERIF, "MANIFEST.json"), "w") as fh:
        json.dump(man, fh, indent=1)
    try:
        import jsonschema
        jsonschema.validate(man, json.load(open("/root/.vp/MANIFEST.schema.json")))
        print("MANIFEST.json valid;", len(checks), "checks,", len(na), "not claimed")
    except ImportError:
        print("written (jsonschema not available to validate)")


if __name__ == "__main__":
    main()
