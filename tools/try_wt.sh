#!/bin/sh
# usage: tools/try_wt.sh <ID> <tier> <PROP>...  -- run checks against a scratch worktree /tmp/wt_<ID> that already carries a seeded change
ID=$1; TIER=$2; shift 2
cd /verif
for P in "$@"; do
  OPENPINCH_REPO=/tmp/wt_$ID .venv/bin/python run.py "$P" --tier "$TIER" > /tmp/seed_${ID}_$P.log 2>&1; rc=$?
  echo "== $ID vs $P ($TIER) exit=$rc"; grep -v Warning /tmp/seed_${ID}_$P.log | grep "VIOLATION\|INCONCLUSIVE\|KNOWN-FINDING\|^\[C" | cut -c1-260 | head -5
done
# a seeded run rewrites evidence/<id>.json and evidence/replays in /verif: put the committed (unchanged-tree) files back
git -C /verif checkout -- evidence 2>/dev/null; git -C /verif clean -fdq evidence/replays 2>/dev/null
