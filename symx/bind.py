"""symx.bind -- load OpenPinch from /repo's working tree and (un)install the shims.

No source file of /repo is edited: module globals `np`, `isinstance`, `float`, `round`, `math`
of the analysed modules are rebound while a symbolic run is active and restored afterwards.
"""
from __future__ import annotations

import builtins
import contextlib
import hashlib
import importlib
import os
import sys
import types

REPO = os.environ.get("OPENPINCH_REPO", "/repo")
if REPO not in sys.path:
    sys.path.insert(0, REPO)

from . import core, uf  # noqa: E402
from .core import SymReal  # noqa: E402
from .npshim import symfloat, symnp  # noqa: E402


def sym_isinstance(x, t):
    if builtins.isinstance(x, SymReal):
        ts = t.__args__ if builtins.isinstance(t, types.UnionType) else (t if builtins.isinstance(t, tuple) else (t,))
        out = False
        for tt in ts:
            if builtins.isinstance(tt, types.UnionType):
                if sym_isinstance(x, tt):
                    out = True
            elif tt in (float, int, symfloat):
                out = True
            elif tt is SymReal or tt is object:
                out = True
        return out
    return builtins.isinstance(x, t)


def sym_round(x, nd=None):
    if builtins.isinstance(x, SymReal):
        return core.round_dp(x, nd or 0)
    return builtins.round(x, nd) if nd is not None else builtins.round(x)


def sym_abs(x):
    return builtins.abs(x)


def sym_max(*a, **kw):
    return builtins.max(*a, **kw)


ANALYSED = [
    "OpenPinch.classes.stream",
    "OpenPinch.classes.stream_collection",
    "OpenPinch.classes.problem_table",
    "OpenPinch.classes.zone",
    "OpenPinch.classes.energy_target",
    "OpenPinch.classes.value",
    "OpenPinch.analysis.problem_table_analysis",
    "OpenPinch.analysis.direct_integration_entry",
    "OpenPinch.analysis.indirect_integration_entry",
    "OpenPinch.analysis.gcc_manipulation",
    "OpenPinch.analysis.utility_targeting",
    "OpenPinch.analysis.data_preparation",
    "OpenPinch.analysis.graph_data",
    "OpenPinch.analysis.capital_cost_and_area_targeting",
    "OpenPinch.analysis.temperature_driving_force",
    "OpenPinch.analysis.energy_transfer_analysis",
    "OpenPinch.analysis.exergy_targeting",
    "OpenPinch.utils.miscellaneous",
    "OpenPinch.utils.heat_exchanger",
    "OpenPinch.utils.costing",
    "OpenPinch.utils.stream_linearisation",
    "OpenPinch.classes.simple_heat_pump",
    "OpenPinch.main",
]

_MISSING = object()
_installed = []


def load(names=None):
    importlib.import_module("OpenPinch")
    mods = {}
    for n in names or ANALYSED:
        mods[n] = importlib.import_module(n)
    return mods


def install(names=None):
    """Rebind module globals of the analysed modules.  Returns the module dict."""
    mods = load(names)
    if _installed:
        return mods
    for n, m in mods.items():
        for attr, val in (("np", symnp), ("isinstance", sym_isinstance), ("float", symfloat),
                          ("round", sym_round), ("math", uf.symmath)):
            if attr in ("np", "math") and attr not in m.__dict__:
                continue
            old = m.__dict__.get(attr, _MISSING)
            _installed.append((m, attr, old))
            setattr(m, attr, val)
    return mods


def uninstall():
    while _installed:
        m, attr, old = _installed.pop()
        if old is _MISSING:
            try:
                delattr(m, attr)
            except AttributeError:
                pass
        else:
            setattr(m, attr, old)


@contextlib.contextmanager
def shims(names=None):
    mods = install(names)
    try:
        yield mods
    finally:
        uninstall()


def source_hashes(files):
    out = {}
    for f in files:
        p = os.path.join(REPO, f)
        try:
            with open(p, "rb") as fh:
                out[f] = hashlib.sha256(fh.read()).hexdigest()[:16]
        except OSError:
            out[f] = "missing"
    return out


# ---------------------------------------------------------------------------------------------------------------------
# Package state between paths.  The explorer re-executes the harness body once per path in ONE interpreter, which is only
# sound when every execution starts from the same package state.  A change that introduces module-level or class-level
# state (a memo dictionary, a rewritten default) would otherwise leak values -- including symbolic terms of another path --
# from one path into the next.  `snapshot_state()` records every plain container / scalar held in module globals and class
# attributes of the loaded OpenPinch modules; `restore_state()` (a path hook) puts them back IN PLACE before each path.
_STATE = []
_PLAIN = (int, float, str, bool, type(None), bytes, tuple, frozenset)


def _owners():
    for mname, mod in list(sys.modules.items()):
        if not (mname == "OpenPinch" or mname.startswith("OpenPinch.")) or mod is None:
            continue
        yield mod
        for val in list(vars(mod).values()):
            if builtins.isinstance(val, type) and getattr(val, "__module__", None) == mname:
                yield val


def snapshot_state():
    import copy
    del _STATE[:]
    for owner in _owners():
        for name, val in list(vars(owner).items()):
            if name.startswith("__") or name in ("np", "math", "isinstance", "float", "round"):
                continue
            if builtins.isinstance(val, (dict, list, set)):
                try:
                    _STATE.append([owner, name, val, copy.copy(val), copy.deepcopy(val)])
                except Exception:
                    pass
            elif builtins.isinstance(val, _PLAIN):
                _STATE.append([owner, name, None, None, val])


def _same_shallow(obj, ref):
    if len(obj) != len(ref):
        return False
    if builtins.isinstance(obj, dict):
        return builtins.all(k in ref and obj[k] is ref[k] for k in obj)
    if builtins.isinstance(obj, list):
        return builtins.all(a is b for a, b in zip(obj, ref))
    return builtins.all(a in ref for a in obj)


def restore_state(*_a):
    """Top-level contents are compared by identity with a shallow copy taken at snapshot time; a container that differs is refilled in
    place from the deep copy (mutations nested deeper than one level are not detected)."""
    import copy
    for ent in _STATE:
        owner, name, obj, shallow, snap = ent
        try:
            if obj is None:
                if vars(owner).get(name, _MISSING) is not snap:
                    setattr(owner, name, snap)
                continue
            if not _same_shallow(obj, shallow):
                fresh = copy.deepcopy(snap)
                if builtins.isinstance(obj, list):
                    obj[:] = fresh
                else:
                    obj.clear()
                    obj.update(fresh)
                ent[3] = copy.copy(obj)
            if vars(owner).get(name, _MISSING) is not obj:
                setattr(owner, name, obj)
        except Exception:
            pass
