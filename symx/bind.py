"""symx.bind -- load OpenPinch from /repo's working tree and (un)install the shims.

No source file of /repo is edited: module globals `np`, `isinstance`, `float`, `round`, `math`
of the analysed modules are rebound while a symbolic run is active and restored afterwards.
"""
from __future__ import annotations

import builtins
import contextlib
import hashlib
import importlib
import os
import sys
import types

REPO = os.environ.get("OPENPINCH_REPO", "/repo")
if REPO not in sys.path:
    sys.path.insert(0, REPO)

from . import core, uf  # noqa: E402
from .core import SymReal  # noqa: E402
from .npshim import symfloat, symnp  # noqa: E402


def sym_isinstance(x, t):
    if builtins.isinstance(x, SymReal):
        ts = t.__args__ if builtins.isinstance(t, types.UnionType) else (t if builtins.isinstance(t, tuple) else (t,))
        out = False
        for tt in ts:
            if builtins.isinstance(tt, types.UnionType):
                if sym_isinstance(x, tt):
                    out = True
            elif tt in (float, int, symfloat):
                out = True
            elif tt is SymReal or tt is object:
                out = True
        return out
    return builtins.isinstance(x, t)


def sym_round(x, nd=None):
    if builtins.isinstance(x, SymReal):
        return core.round_dp(x, nd or 0)
    return builtins.round(x, nd) if nd is not None else builtins.round(x)


def sym_abs(x):
    return builtins.abs(x)


def sym_max(*a, **kw):
    return builtins.max(*a, **kw)


ANALYSED = [
    "OpenPinch.classes.stream",
    "OpenPinch.classes.stream_collection",
    "OpenPinch.classes.problem_table",
    "OpenPinch.classes.zone",
    "OpenPinch.classes.energy_target",
    "OpenPinch.classes.value",
    "OpenPinch.analysis.problem_table_analysis",
    "OpenPinch.analysis.direct_integration_entry",
    "OpenPinch.analysis.indirect_integration_entry",
    "OpenPinch.analysis.gcc_manipulation",
    "OpenPinch.analysis.utility_targeting",
    "OpenPinch.analysis.data_preparation",
    "OpenPinch.analysis.graph_data",
    "OpenPinch.analysis.capital_cost_and_area_targeting",
    "OpenPinch.analysis.temperature_driving_force",
    "OpenPinch.analysis.energy_transfer_analysis",
    "OpenPinch.analysis.exergy_targeting",
    "OpenPinch.utils.miscellaneous",
    "OpenPinch.utils.heat_exchanger",
    "OpenPinch.utils.costing",
    "OpenPinch.utils.stream_linearisation",
    "OpenPinch.classes.simple_heat_pump",
    "OpenPinch.main",
]

_MISSING = object()
_installed = []


def load(names=None):
    importlib.import_module("OpenPinch")
    mods = {}
    for n in names or ANALYSED:
        mods[n] = importlib.import_module(n)
    return mods


def install(names=None):
    """Rebind module globals of the analysed modules.  Returns the module dict."""
    mods = load(names)
    if _installed:
        return mods
    for n, m in mods.items():
        for attr, val in (("np", symnp), ("isinstance", sym_isinstance), ("float", symfloat),
                          ("round", sym_round), ("math", uf.symmath)):
            if attr in ("np", "math") and attr not in m.__dict__:
                continue
            old = m.__dict__.get(attr, _MISSING)
            _installed.append((m, attr, old))
            setattr(m, attr, val)
    return mods


def uninstall():
    while _installed:
        m, attr, old = _installed.pop()
        if old is _MISSING:
            try:
                delattr(m, attr)
            except AttributeError:
                pass
        else:
            setattr(m, attr, old)


@contextlib.contextmanager
def shims(names=None):
    mods = install(names)
    try:
        yield mods
    finally:
        uninstall()


def source_hashes(files):
    out = {}
    for f in files:
        p = os.path.join(REPO, f)
        try:
            with open(p, "rb") as fh:
                out[f] = hashlib.sha256(fh.read()).hexdigest()[:16]
        except OSError:
            out[f] = "missing"
    return out
