"""symx.uf -- uninterpreted functions (exp, log, pow, sqrt, fluid properties) with instantiated axioms.

A UF application is a *polynomial variable* whose z3 term is `f(arg)`.  Axioms (all true
statements about the real function) are instantiated on the path whenever an application is
created, pairwise against the applications of the same function already present on that path.
The axiom list is part of every claim that uses it and is reported in the evidence.
"""
from __future__ import annotations

import math as _math

import z3

from . import core
from .core import SymReal, lift, p_key, real_var

_names = {}          # (fname, argkeys) -> var name
_path_apps = {}      # fname -> list[(name, args)] created on the current path
AXIOMS_USED = set()


def reset_path():
    _path_apps.clear()


def _argkey(a):
    return (p_key(a.n), p_key(a.d))


def app(fname, *args):
    """Return the SymReal variable standing for fname(*args); instantiate axioms once per path."""
    args = tuple(lift(a) for a in args)
    key = (fname, tuple(_argkey(a) for a in args))
    name = _names.get(key)
    if name is None:
        name = f"{fname}!{len(_names)}"
        _names[key] = name
        core._ufapps[name] = (fname, args)
    v = real_var(name)
    lst = _path_apps.setdefault(fname, [])
    if all(n != name for n, _ in lst):
        ax = AXIOM_TABLE.get(fname)
        if ax is not None:
            ax(v, args, lst)
        lst.append((name, args))
    return v


def _assume(c, tagname):
    AXIOMS_USED.add(tagname)
    core.EX.assume(c)


def _as_uf(x, fname):
    """If x is exactly one UF application of fname, return its argument."""
    if not core.p_is_const(x.d) or len(x.n) != 1:
        return None
    (m, c), = x.n.items()
    if c != core.p_cval(x.d) or len(m) != 1 or m[0][1] != 1:
        return None
    ent = core._ufapps.get(m[0][0])
    if ent and ent[0] == fname:
        return ent[1][0]
    return None


# ---- exp / log -------------------------------------------------------------------------------
def _ax_exp(v, args, others):
    (x,) = args
    _assume(v.t > 0, "exp(x) > 0")
    _assume(v.t >= 1 + x.t, "exp(x) >= 1 + x")
    _assume(z3.Implies(x.t < 1, v.t * (1 - x.t) <= 1), "exp(x) <= 1/(1-x) for x < 1")
    _assume(z3.And(z3.Implies(x.t > 0, v.t > 1), z3.Implies(x.t < 0, v.t < 1), z3.Implies(x.t == 0, v.t == 1)),
            "sign(exp(x) - 1) = sign(x)")
    for oname, oargs in others:
        o = real_var(oname)
        y = oargs[0]
        _assume(z3.And(z3.Implies(x.t < y.t, v.t < o.t), z3.Implies(x.t > y.t, v.t > o.t),
                       z3.Implies(x.t == y.t, v.t == o.t)), "exp strictly increasing")
        s = x + y
        if s.is_const() and s.const_value() == 0:
            _assume(v.t * o.t == 1, "exp(-x) * exp(x) = 1")


def _ax_log(v, args, others):
    (y,) = args
    _assume(v.t <= y.t - 1, "log(y) <= y - 1")
    _assume(v.t * y.t >= y.t - 1, "log(y) >= 1 - 1/y")
    _assume(z3.And(z3.Implies(y.t > 1, v.t > 0), z3.Implies(y.t < 1, v.t < 0), z3.Implies(y.t == 1, v.t == 0)),
            "sign(log(y)) = sign(y - 1)")
    _assume(z3.And(z3.Implies(y.t >= 1, v.t * (y.t + 1) >= 2 * (y.t - 1)), z3.Implies(y.t <= 1, v.t * (y.t + 1) <= 2 * (y.t - 1))),
            "log(y) >= 2(y-1)/(y+1) for y >= 1, <= for 0 < y <= 1")
    for oname, oargs in others:
        o = real_var(oname)
        w = oargs[0]
        _assume(z3.And(z3.Implies(y.t < w.t, v.t < o.t), z3.Implies(y.t > w.t, v.t > o.t),
                       z3.Implies(y.t == w.t, v.t == o.t)), "log strictly increasing")
        pr = y * w
        if pr.is_const() and pr.const_value() == 1:
            _assume(v.t + o.t == 0, "log(1/y) = -log(y)")


def exp(x):
    x = lift(x)
    if x.is_const():
        c = x.const_value()
        if c == 0:
            return lift(1)
        if core.EX is None or getattr(core.EX, "concrete_uf", False):
            return lift(_math.exp(float(c)))
    inner = _as_uf(x, "log")
    if inner is not None:
        AXIOMS_USED.add("exp(log(y)) = y")
        return inner
    combo = _log_combo(x)
    if combo is not None:
        # exp(c0 + sum k_i log y_i) = exp(c0) * prod y_i^k_i   (exact identity, k_i integers)
        AXIOMS_USED.add("exp(c0 + sum k_i log(y_i)) = exp(c0) * prod y_i^k_i")
        c0, terms = combo
        r = lift(1) if c0 == 0 else exp(lift(c0))
        for y, k in terms:
            r = r * (y ** k)
        return r
    return app("exp", x)


def _log_combo(x):
    """x == c0 + sum k_i * log-app_i with integer k_i (and constant denominator)?"""
    if not core.p_is_const(x.d):
        return None
    dc = core.p_cval(x.d)
    c0 = 0
    terms = []
    for mono, coef in x.n.items():
        coef = coef / dc
        if not mono:
            c0 = coef
            continue
        if len(mono) != 1 or mono[0][1] != 1:
            return None
        ent = core._ufapps.get(mono[0][0])
        if not ent or ent[0] != "log" or coef.denominator != 1:
            return None
        terms.append((ent[1][0], int(coef)))
    if not terms:
        return None
    return c0, terms


def log(y):
    y = lift(y)
    if not bool(y > 0):
        raise ValueError("math domain error")
    if y.is_const():
        c = y.const_value()
        if c == 1:
            return lift(0)
        if core.EX is None or getattr(core.EX, "concrete_uf", False):
            return lift(_math.log(float(c)))
    inner = _as_uf(y, "exp")
    if inner is not None:
        AXIOMS_USED.add("log(exp(x)) = x")
        return inner
    mono = _exp_monomial(y)
    if mono is not None:
        # log(k * prod exp(x_i)^e_i) = log k + sum e_i x_i   (exact identity)
        AXIOMS_USED.add("log(k * prod exp(x_i)^e_i) = log k + sum e_i * x_i")
        k, terms = mono
        r = lift(0) if k == 1 else log(lift(k))
        for x, e in terms:
            r = r + e * x
        return r
    return app("log", y)


def _exp_monomial(y):
    """y == k * prod(exp-apps ^ integer exponents) (numerator and denominator single monomials)?"""
    if len(y.n) != 1 or len(y.d) != 1:
        return None
    (mn, cn), = y.n.items()
    (md, cd), = y.d.items()
    terms = []
    for mono, sign in ((mn, 1), (md, -1)):
        for v, e in mono:
            ent = core._ufapps.get(v)
            if not ent or ent[0] != "exp":
                return None
            terms.append((ent[1][0], sign * e))
    if not terms:
        return None
    k = cn / cd
    if k <= 0:
        return None
    return k, terms


# ---- sqrt / real powers ----------------------------------------------------------------------
def _ax_sqrt(v, args, others):
    (x,) = args
    _assume(z3.And(v.t >= 0, v.t * v.t == x.t), "sqrt(x) >= 0 and sqrt(x)^2 = x")


def sqrt(x):
    x = lift(x)
    if not bool(x >= 0):
        raise ValueError("math domain error")
    if x.is_const():
        c = x.const_value()
        r = _math.isqrt(c.numerator) ** 2 == c.numerator and _math.isqrt(c.denominator) ** 2 == c.denominator
        if r:
            from fractions import Fraction
            return lift(Fraction(_math.isqrt(c.numerator), _math.isqrt(c.denominator)))
        if core.EX is None or getattr(core.EX, "concrete_uf", False):
            return lift(_math.sqrt(float(c)))
    return app("sqrt", x)


def _ax_pow(v, args, others):
    """pow(x, k) for x > 0, concrete real k: positive, strictly monotone in x by sign of k, pow(1,k)=1."""
    x, k = args
    kc = k.const_value()
    _assume(v.t > 0, "x^k > 0 for x > 0")
    _assume(z3.Implies(x.t == 1, v.t == 1), "1^k = 1")
    if kc > 0:
        _assume(z3.And(z3.Implies(x.t > 1, v.t > 1), z3.Implies(x.t < 1, v.t < 1)), "x^k vs 1 (k>0)")
    elif kc < 0:
        _assume(z3.And(z3.Implies(x.t > 1, v.t < 1), z3.Implies(x.t < 1, v.t > 1)), "x^k vs 1 (k<0)")
    from fractions import Fraction as _F
    if kc > 0 and (1 / _F(kc)).denominator == 1 and 1 / _F(kc) <= 4:
        P = int(1 / _F(kc))
        r = v.t
        for _ in range(P - 1):
            r = r * v.t
        _assume(r == x.t, "(x^(1/P))^P = x")
    for oname, oargs in others:
        ox, ok = oargs
        if ok.const_value() != kc:
            continue
        o = real_var(oname)
        if kc > 0:
            _assume(z3.And(z3.Implies(x.t < ox.t, v.t < o.t), z3.Implies(x.t > ox.t, v.t > o.t),
                           z3.Implies(x.t == ox.t, v.t == o.t)), "x^k strictly increasing in x (k>0)")
        elif kc < 0:
            _assume(z3.And(z3.Implies(x.t < ox.t, v.t > o.t), z3.Implies(x.t > ox.t, v.t < o.t),
                           z3.Implies(x.t == ox.t, v.t == o.t)), "x^k strictly decreasing in x (k<0)")


def power(x, k):
    """x ** k for symbolic x and concrete non-integer k."""
    x = lift(x)
    if isinstance(k, SymReal):
        if not k.is_const():
            raise NotImplementedError("symbolic exponent")
        k = k.const_value()
    from fractions import Fraction
    kf = Fraction(k)
    if abs(kf - Fraction(1, 3)) < Fraction(1, 10 ** 12):
        kf = Fraction(1, 3)          # 1/3 is not a binary fraction: the source's (1 / Passes) means the exact root
    if kf.numerator == 1 and kf.denominator > 1 and not x.is_const():
        mono = _exp_monomial(x)
        if mono is not None and all(e % kf.denominator == 0 for _, e in mono[1]):
            rk = _exact_root(mono[0], kf.denominator)
            if rk is not None and bool(x > 0):
                AXIOMS_USED.add("(k^P * prod exp(x_i)^(P e_i))^(1/P) = k * prod exp(x_i)^e_i")
                r = lift(rk)
                for xi, e in mono[1]:
                    r = r * (exp(xi) ** (e // kf.denominator))
                return r
    if kf == Fraction(1, 2):
        return sqrt(x)
    if x.is_const() and (core.EX is None or getattr(core.EX, "concrete_uf", False)):
        return lift(float(x.const_value()) ** float(kf))
    if not bool(x > 0):
        if bool(x == 0) and kf > 0:
            return lift(0)
        raise ValueError("negative base with fractional exponent")
    if kf.numerator == 1 and kf.denominator > 1:
        P = kf.denominator
        mono = _exp_monomial(x)
        if mono is not None and all(e % P == 0 for _, e in mono[1]):
            k0, terms = mono
            rk = _exact_root(k0, P)
            if rk is not None:
                AXIOMS_USED.add("(k^P * prod exp(x_i)^(P e_i))^(1/P) = k * prod exp(x_i)^e_i")
                r = lift(rk)
                for xi, e in terms:
                    r = r * (exp(xi) ** (e // P))
                return r
    return app("pow", x, lift(kf))


def _exact_root(k, P):
    from fractions import Fraction
    def iroot(n):
        r = round(n ** (1.0 / P))
        for c in (r - 1, r, r + 1):
            if c >= 0 and c ** P == n:
                return c
        return None
    a, b = iroot(k.numerator), iroot(k.denominator)
    if a is None or b is None:
        return None
    return Fraction(a, b)


def rpower(base, e):
    """base ** e for concrete base > 0, symbolic e  ==  exp(e * log(base))."""
    base = lift(base)
    if base.is_const():
        b = float(base.const_value())
        if b == 1:
            return lift(1)
        return exp(e * _math.log(b))
    return exp(e * log(base))


AXIOM_TABLE = {"exp": _ax_exp, "log": _ax_log, "sqrt": _ax_sqrt, "pow": _ax_pow}


# ---- `math` module stand-in ---------------------------------------------------------------------
class _SymMath:
    def __getattr__(self, name):
        return getattr(_math, name)

    @staticmethod
    def exp(x):
        if isinstance(x, SymReal):
            return exp(x)
        return _math.exp(x)

    @staticmethod
    def log(x, *base):
        if isinstance(x, SymReal):
            r = log(x)
            if base:
                return r / _math.log(base[0])
            return r
        return _math.log(x, *base)

    @staticmethod
    def sqrt(x):
        if isinstance(x, SymReal):
            return sqrt(x)
        return _math.sqrt(x)

    @staticmethod
    def pow(x, k):
        if isinstance(x, SymReal) or isinstance(k, SymReal):
            return lift(x) ** k
        return _math.pow(x, k)

    @staticmethod
    def isnan(x):
        if isinstance(x, SymReal):
            return False
        return _math.isnan(x)

    @staticmethod
    def isfinite(x):
        if isinstance(x, SymReal):
            return True
        return _math.isfinite(x)

    @staticmethod
    def isclose(a, b, rel_tol=1e-9, abs_tol=0.0):
        if isinstance(a, SymReal) or isinstance(b, SymReal):
            d = abs(a - b)
            return bool(d <= abs_tol) or bool(d <= rel_tol * abs(a)) or bool(d <= rel_tol * abs(b))
        return _math.isclose(a, b, rel_tol=rel_tol, abs_tol=abs_tol)

    @staticmethod
    def fabs(x):
        return abs(x)


symmath = _SymMath()
