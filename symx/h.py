"""symx.h -- helpers shared by harness bodies; every helper works on SymReal and on floats."""
from __future__ import annotations

import math
from fractions import Fraction

import numpy as _np

from .core import SymBool, SymReal, sb_and, sb_not, sb_or


def is_nan(v):
    return isinstance(v, (float, _np.floating)) and v != v


def close(a, b, tol=1e-9):
    """|a-b| <= tol without forking."""
    if is_nan(a) or is_nan(b):
        return is_nan(a) and is_nan(b)
    return sb_and(a - b <= tol, b - a <= tol)


def conj(conds):
    return sb_and(*list(conds))


def disj(conds):
    return sb_or(*list(conds))


def neg(c):
    return sb_not(c)


def implies(a, b):
    return sb_or(sb_not(a), b)


def vmax(ctx, xs):
    """max that forks in symbolic mode (plain max otherwise)."""
    it = iter(xs)
    m = next(it)
    for x in it:
        if bool(x > m):
            m = x
    return m


def vmin(ctx, xs):
    it = iter(xs)
    m = next(it)
    for x in it:
        if bool(x < m):
            m = x
    return m


def vabs(x):
    return x if bool(x >= 0) else -x


def col(pt, name):
    """Column of a ProblemTable as a Python list."""
    return list(_np.asarray(pt.col[name]))


def fl(v):
    if isinstance(v, SymReal):
        return float(v.const_value()) if v.is_const() else None
    if isinstance(v, Fraction):
        return float(v)
    return float(v)


def pw_interp_desc(Ts, Hs, x, slopes=None):
    """Piecewise-linear interpolation through (Ts descending, Hs) at x, end values outside.
    With concrete `slopes` (dH/dT per interval) the result is linear in the unknowns."""
    n = len(Ts)
    if bool(x >= Ts[0]):
        return Hs[0]
    for k in range(n - 1):
        if bool(x >= Ts[k + 1]):
            if slopes is not None:
                return Hs[k + 1] + slopes[k] * (x - Ts[k + 1])
            return Hs[k + 1] + (Hs[k] - Hs[k + 1]) / (Ts[k] - Ts[k + 1]) * (x - Ts[k + 1])
    return Hs[-1]
