"""symx -- path-exploring symbolic executor for NumPy-vectorised Python (see /verif/DESIGN.md)."""
