"""symx.npshim -- the `np` stand-in bound into the analysed OpenPinch modules.

Falls through to real NumPy for everything except the handful of entry points that force
float64 or have no object-dtype loop.  Object arrays of SymReal then run through NumPy's own
C loops, which call SymReal's operators (and therefore fork on comparisons).
"""
from __future__ import annotations

import builtins
import math

import numpy as _np

from . import core
from .core import SymBool, SymReal, lift, round_dp


def _has_sym(x):
    if isinstance(x, (SymReal, SymBool)):
        return True
    if isinstance(x, _np.ndarray):
        return x.dtype == object
    if isinstance(x, (list, tuple)):
        return any(_has_sym(e) for e in x)
    return False


class SymFloatMeta(type):
    def __instancecheck__(cls, x):
        return builtins.isinstance(x, (float, SymReal))


class symfloat(float, metaclass=SymFloatMeta):
    """`float` stand-in: identity on SymReal, still a type usable in isinstance()/dtype=."""

    def __new__(cls, x=0.0):
        if isinstance(x, SymReal):
            return x
        return float(x)


def _isnan_scalar(v):
    if isinstance(v, (SymReal, SymBool)):
        return False
    try:
        return bool(_np.isnan(v))
    except TypeError:
        return False


def _round_scalar(v, d):
    if isinstance(v, SymReal):
        return round_dp(v, d)
    if isinstance(v, (float, _np.floating)):
        return round(float(v), d)
    return v


def _plain(a):
    return _np.asarray(a) if isinstance(a, SymArr) else a


class SymArr(_np.ndarray):
    """ndarray subclass (object dtype) that keeps `.round`, `isnan` usable."""

    def round(self, decimals=0, out=None):
        r = _np.frompyfunc(lambda v: _round_scalar(v, decimals), 1, 1)(_np.asarray(self))
        return _np.asarray(r, dtype=object).view(SymArr)

    def __array_ufunc__(self, ufunc, method, *inputs, **kw):
        ins = [_plain(i) for i in inputs]
        if "out" in kw:
            kw["out"] = tuple(_plain(o) for o in kw["out"])
        if method == "__call__":
            if ufunc is _np.isnan:
                return _np.frompyfunc(_isnan_scalar, 1, 1)(ins[0]).astype(bool)
            if ufunc is _np.isfinite:
                return _np.frompyfunc(lambda v: not _isnan_scalar(v) and not core._is_special_float(v), 1, 1)(ins[0]).astype(bool)
        r = getattr(ufunc, method)(*ins, **kw)
        if isinstance(r, _np.ndarray) and r.dtype == object:
            r = r.view(SymArr)
        return r

    def astype(self, dtype, *a, **kw):
        if dtype in (float, symfloat, _np.float64):
            return self
        return _np.asarray(self).astype(dtype, *a, **kw)

    def var(self, *a, **kw):
        """Variance of a symbolic vector is only used as an 'all values equal?' test (|var| < 1e-6).
        Modelled: 0 when max == min (decided by the solver), otherwise the run ASSUMES the spread is >= 0.5 and returns the
        sound lower bound spread^2 / (2 n) evaluated at 0.5 (a constant > 1e-6 for n < 1e5)."""
        flat = list(_np.asarray(self).ravel())
        lo = hi = flat[0]
        for v in flat[1:]:
            if bool(v < lo):
                lo = v
            if bool(v > hi):
                hi = v
        if bool(hi - lo == 0):
            return 0.0
        if core.EX is not None and not getattr(core.EX, "lift_mode", False):
            core.EX.assume(hi - lo >= 0.5)
            return 0.125 / len(flat)
        vals = [float(core.lift(v).const_value()) for v in flat]
        return float(_np.var(vals))


def _wrap(a):
    if isinstance(a, _np.ndarray) and a.dtype == object and not isinstance(a, SymArr):
        return a.view(SymArr)
    return a


def _isobj(a):
    return isinstance(a, _np.ndarray) and a.dtype == object


def _interp_scalar(x, xp, fp, left=None, right=None):
    """np.interp semantics (xp increasing) in plain Python so it forks on SymReal."""
    n = len(xp)
    if left is None:
        left = fp[0]
    if right is None:
        right = fp[-1]
    if x < xp[0]:
        return left
    if x > xp[-1]:
        return right
    for k in range(n - 1):
        if x <= xp[k + 1]:
            if x == xp[k + 1]:
                # np.interp returns fp at the last index whose xp <= x (right-most for duplicates)
                j = k + 1
                while j + 1 < n and xp[j + 1] == x:
                    j += 1
                return fp[j]
            dx = xp[k + 1] - xp[k]
            return fp[k] + (fp[k + 1] - fp[k]) * ((x - xp[k]) / dx)
    return right


class NP:
    """Proxy for the numpy module."""

    symfloat = symfloat

    def __getattr__(self, name):
        return getattr(_np, name)

    @staticmethod
    def _dt(kw):
        if kw.get("dtype") in (float, symfloat, _np.float64):
            kw = dict(kw)
            kw["dtype"] = object
        return kw

    def asarray(self, x, *a, **kw):
        if _has_sym(x):
            kw = self._dt(kw)
        elif kw.get("dtype") is symfloat:
            kw["dtype"] = float
        return _wrap(_np.asarray(x, *a, **kw))

    def array(self, x, *a, **kw):
        if _has_sym(x):
            kw = self._dt(kw)
        elif kw.get("dtype") is symfloat:
            kw["dtype"] = float
        return _wrap(_np.array(x, *a, **kw))

    def atleast_1d(self, x):
        return _wrap(_np.atleast_1d(x))

    def isnan(self, x):
        if _isobj(x):
            return _np.frompyfunc(_isnan_scalar, 1, 1)(_np.asarray(x)).astype(bool)
        if isinstance(x, (SymReal, SymBool)):
            return False
        return _np.isnan(x)

    def isfinite(self, x):
        if _isobj(x):
            return _np.frompyfunc(lambda v: not _isnan_scalar(v) and not core._is_special_float(v), 1, 1)(_np.asarray(x)).astype(bool)
        if isinstance(x, (SymReal, SymBool)):
            return True
        return _np.isfinite(x)

    def round(self, x, decimals=0):
        if _isobj(x):
            return _wrap(_np.asarray(x)).round(decimals)
        if isinstance(x, SymReal):
            return round_dp(x, decimals)
        return _np.round(x, decimals)

    around = round

    def nanmin(self, x, axis=None):
        if _isobj(x):
            nan = self.isnan(x)
            if not nan.any():
                return _plain(x).min(axis=axis)
            big = _np.where(nan, math.inf, _np.asarray(x))
            return big.min(axis=axis)
        return _np.nanmin(x, axis=axis)

    def nanmax(self, x, axis=None):
        if _isobj(x):
            nan = self.isnan(x)
            if not nan.any():
                return _plain(x).max(axis=axis)
            small = _np.where(nan, -math.inf, _np.asarray(x))
            return small.max(axis=axis)
        return _np.nanmax(x, axis=axis)

    def full_like(self, a, v, dtype=None, **kw):
        if _isobj(a) and dtype in (float, symfloat, _np.float64):
            dtype = object
        return _wrap(_np.full_like(_plain(a), v, dtype=dtype, **kw))

    def zeros_like(self, a, dtype=None, **kw):
        if _isobj(a) and dtype in (float, symfloat, _np.float64, None):
            r = _np.empty(_np.shape(a), dtype=object)
            r[...] = 0.0
            return _wrap(r)
        return _wrap(_np.zeros_like(_plain(a), dtype=dtype, **kw))

    def ones_like(self, a, dtype=None, **kw):
        if _isobj(a) and dtype in (float, symfloat, _np.float64, None):
            r = _np.empty(_np.shape(a), dtype=object)
            r[...] = 1.0
            return _wrap(r)
        return _wrap(_np.ones_like(_plain(a), dtype=dtype, **kw))

    def empty_like(self, a, dtype=None, **kw):
        if _isobj(a) and dtype in (float, symfloat, _np.float64):
            dtype = object
        return _wrap(_np.empty_like(_plain(a), dtype=dtype, **kw))

    def isclose(self, a, b, rtol=1e-5, atol=1e-8, **kw):
        if _has_sym(a) or _has_sym(b):
            r = abs(a - b) <= atol + rtol * abs(b)
            return _np.bool_(r) if isinstance(r, bool) else r
        return _np.isclose(a, b, rtol=rtol, atol=atol, **kw)

    def allclose(self, a, b, rtol=1e-5, atol=1e-8, **kw):
        if _has_sym(a) or _has_sym(b):
            r = self.isclose(_np.asarray(a, dtype=object), _np.asarray(b, dtype=object), rtol=rtol, atol=atol)
            return bool(_np.all(r))
        return _np.allclose(a, b, rtol=rtol, atol=atol, **kw)

    def interp(self, x, xp, fp, left=None, right=None, period=None):
        if _has_sym(x) or _has_sym(xp) or _has_sym(fp):
            xp = list(_np.asarray(xp, dtype=object))
            fp = list(_np.asarray(fp, dtype=object))
            if _np.ndim(x) == 0:
                return _interp_scalar(x, xp, fp, left, right)
            out = _np.empty(len(x), dtype=object)
            for i, v in enumerate(x):
                out[i] = _interp_scalar(v, xp, fp, left, right)
            return _wrap(out)
        return _np.interp(x, xp, fp, left=left, right=right, period=period)

    def unique(self, a, *args, **kw):
        if _has_sym(a) and not args and not kw:
            vals = sorted(set(_np.asarray(a, dtype=object).ravel().tolist()))
            return _wrap(_np.array(vals, dtype=object))
        return _np.unique(a, *args, **kw)

    def union1d(self, a, b):
        if _has_sym(a) or _has_sym(b):
            return self.unique(_np.concatenate((_np.asarray(a, dtype=object).ravel(), _np.asarray(b, dtype=object).ravel())))
        return _np.union1d(a, b)

    def sqrt(self, x):
        if isinstance(x, SymReal):
            return x.sqrt()
        return _np.sqrt(x)

    def exp(self, x):
        if isinstance(x, SymReal):
            return x.exp()
        return _np.exp(x)

    def log(self, x):
        if isinstance(x, SymReal):
            return x.log()
        return _np.log(x)

    def diff(self, a, *args, **kw):
        return _wrap(_np.diff(_plain(a), *args, **kw))

    def concatenate(self, arrs, *a, **kw):
        return _wrap(_np.concatenate([_plain(x) for x in arrs], *a, **kw))

    def where(self, *args):
        if len(args) == 3 and (_has_sym(args[0])):
            cond = _np.asarray(args[0], dtype=object)
            flat = _np.array([bool(c) for c in cond.ravel()]).reshape(cond.shape)
            return _wrap(_np.where(flat, args[1], args[2]))
        return _wrap(_np.where(*[_plain(a) for a in args]))

    def flatnonzero(self, a):
        if _isobj(a):
            return _np.flatnonzero(_np.array([bool(c) for c in _np.asarray(a).ravel()]))
        return _np.flatnonzero(a)

    def any(self, a, *args, **kw):
        if _isobj(a) and not args and not kw:
            for c in _np.asarray(a).ravel():
                if bool(c):
                    return True
            return False
        return _np.any(a, *args, **kw)

    def all(self, a, *args, **kw):
        if _isobj(a) and not args and not kw:
            for c in _np.asarray(a).ravel():
                if not bool(c):
                    return False
            return True
        return _np.all(a, *args, **kw)

    def abs(self, x):
        if isinstance(x, SymReal):
            return abs(x)
        return _np.abs(x)

    absolute = abs

    def maximum(self, a, b):
        if isinstance(a, SymReal) or isinstance(b, SymReal):
            return a if bool(a >= b) else b
        return _np.maximum(a, b)

    def minimum(self, a, b):
        if isinstance(a, SymReal) or isinstance(b, SymReal):
            return a if bool(a <= b) else b
        return _np.minimum(a, b)

    def copyto(self, dst, src, where=True, **kw):
        if _isobj(dst) or _has_sym(src) or _has_sym(where):
            d = _np.asarray(dst)
            srcb = _np.broadcast_to(_np.asarray(src, dtype=object), d.shape)
            wb = _np.broadcast_to(_np.asarray(where, dtype=object), d.shape)
            if d.ndim == 0:
                if bool(wb[()]):
                    d[()] = srcb[()]
                return
            for idx in _np.ndindex(d.shape):
                if bool(wb[idx]):
                    d[idx] = srcb[idx]
            return
        return _np.copyto(dst, src, where=where, **kw)

    def divide(self, a, b, out=None, where=True, **kw):
        if _has_sym(a) or _has_sym(b) or _isobj(out) or _has_sym(where):
            aa = _np.asarray(a, dtype=object)
            bb = _np.asarray(b, dtype=object)
            shape = _np.broadcast(aa, bb).shape
            res = out if out is not None else _np.empty(shape, dtype=object)
            r = _np.asarray(res)
            ab, bbb = _np.broadcast_to(aa, shape), _np.broadcast_to(bb, shape)
            wb = _np.broadcast_to(_np.asarray(where, dtype=object), shape)
            for idx in (_np.ndindex(shape) if shape else [()]):
                if bool(wb[idx]):
                    r[idx] = ab[idx] / bbb[idx]
            return _wrap(r) if out is None else out
        return _np.divide(a, b, out=out, where=where, **kw)

    def sum(self, a, *args, **kw):
        return _np.sum(_plain(a) if isinstance(a, _np.ndarray) else a, *args, **kw)

    def cumsum(self, a, *args, **kw):
        return _wrap(_np.cumsum(_plain(a) if isinstance(a, _np.ndarray) else a, *args, **kw))


symnp = NP()
