"""symx.runner -- runs harness families to exhaustion, replays counterexamples, writes evidence."""
from __future__ import annotations

import concurrent.futures as cf
import importlib
import json
import multiprocessing as mp
import os
import subprocess
import sys
import time
import traceback
from dataclasses import dataclass, field
from fractions import Fraction

VERIF = os.path.dirname(os.path.dirname(os.path.abspath(__file__)))
EXIT_OK, EXIT_VIOLATION, EXIT_INCONCLUSIVE = 0, 1, 2


@dataclass
class Family:
    name: str
    cases: callable            # (tier, seed) -> list of JSON-able case dicts
    body: callable             # (ctx, case) -> None
    functions: list            # qualified names of the repo functions symbolically executed
    files: list                # repo-relative source files (hashed into the evidence)
    bounds: str                # human-readable bound statement
    assumptions: list = field(default_factory=list)
    shim_modules: list | None = None
    logic: str | None = None
    timeout_ms: int = 20000
    round_identity: bool = False
    split_depth: int = 0       # (unused, kept for harness compatibility)
    split_paths: int = 40      # work splitting: a task explores this many paths, then hands its unexplored sub-trees to the pool
    case_cap_s: float = 3000.0  # safety cap per case (hit => inconclusive, never success)
    validate_every: int = 1    # differential validation of every k-th path
    max_validate: int = 400
    engine: str = "symx"       # "symx" | "crosshair" | custom
    reach: list = field(default_factory=list)   # tags that must be witnessed on at least one path (vacuity guard)
    concrete_uf: bool = False
    concrete_only_validation: bool = False   # validation = run the path model through the REAL float code only (used when the symbolic
                                             # run abstracts a compiled library by uninterpreted functions: values are not comparable)
    snap: str = "dyadic"      # how exact models become floats: 'dyadic' (2^-30 grid) | 'micro' (1e-6 lattice)


def _jsonable(v):
    if isinstance(v, Fraction):
        return {"q": [v.numerator, v.denominator]}
    return v


def _env_from_json(d):
    out = {}
    for k, v in d.items():
        if isinstance(v, dict) and "q" in v:
            out[k] = Fraction(v["q"][0], v["q"][1])
        else:
            out[k] = v
    return out


def snap_inputs(fam, env):
    """Exact model -> values handed to the float replay: dyadic values stay exact; others are rounded
    to 9 significant decimals (the harness' own grid/lattice assumptions are re-checked by the replay)."""
    out = {}
    for k, v in env.items():
        if isinstance(v, Fraction):
            f = float(v)
            snap = getattr(fam, "snap", "dyadic") if fam is not None else "dyadic"
            if snap == "micro":
                # 1e-6 K lattice (the code rounds temperatures to 6 dp; see DESIGN 1.3)
                f = round(float(v), 6)
            elif (v * 2 ** 30).denominator != 1:
                # nearest multiple of 2^-30: exactly representable, sums/differences stay exact in float64
                f = float(Fraction(round(v * 2 ** 30), 2 ** 30))
            out[k] = f
        else:
            out[k] = v
    return out


# ------------------------------------------------------------------------------------------------
def _load_family(prop, fam_name):
    mod = importlib.import_module(f"harness.{prop.lower()}")
    for f in mod.FAMILIES:
        if f.name == fam_name:
            return mod, f
    raise KeyError(fam_name)


def _known_regions(prop):
    p = os.path.join(VERIF, "known_findings.json")
    try:
        with open(p) as fh:
            kf = json.load(fh)
    except OSError:
        return {}
    return {e["region"]: e for e in kf.get("findings", []) if e["property"] == prop}


def run_concrete(fam, case, env, mode="concrete", exact=False):
    """Run the harness body on concrete inputs.  mode 'concrete': plain floats, shims off;
    'lift': constant SymReals through the engine, shims on."""
    from . import bind, core, uf
    if mode == "concrete":
        bind.uninstall()
        core.EX = None
        ctx = core.ConcreteCtx(env)
    else:
        bind.install(fam.shim_modules)
        ex = core.Explorer(timeout_ms=fam.timeout_ms, round_identity=True)
        ex.concrete_uf = True
        ex.exact_replay = exact
        ex.lift_mode = True
        core.EX = ex
        uf.reset_path()
        ctx = core.LiftCtx(env)
    out = {"failed": [], "notes": {}, "regions": [], "assumption_failed": False, "exception": None, "tags": []}
    try:
        fam.body(ctx, case)
    except core.AssumptionFailed as e:
        out["assumption_failed"] = True
        out["why"] = str(e)[:200]
    except Exception as e:  # the code under test raised
        out["exception"] = f"{type(e).__name__}: {e}"[:300]
        ctx.failed.append("exception:" + type(e).__name__)
    finally:
        if mode != "concrete":
            bind.uninstall()
            core.EX = None
    out["failed"] = list(ctx.failed)
    out["regions"] = sorted(ctx.region_hits)
    out["tags"] = sorted(ctx.tags)
    notes = {}
    for k, v in ctx.notes.items():
        try:
            notes[k] = core.to_float(v)
        except Exception:
            notes[k] = repr(v)
    out["notes"] = notes
    return out


def _explore_task(args):
    """Worker: explore one case (or one sub-tree of it) to exhaustion."""
    prop, fam_name, case, prefix, enumerate_prefixes = args
    sys.setrecursionlimit(10000)
    from . import bind, core, uf
    mod, fam = _load_family(prop, fam_name)
    known = {rid: e.get("labels") for rid, e in _known_regions(prop).items()}
    t0 = time.time()
    bind.install(fam.shim_modules)
    ex = core.Explorer(timeout_ms=fam.timeout_ms, logic=fam.logic, round_identity=fam.round_identity)
    ex.concrete_uf = fam.concrete_uf
    ex.xcheck_budget = int(os.environ.get("VERIF_XCHECK", "0") or 0)
    ex.path_hooks.append(uf.reset_path)
    bind.snapshot_state()
    ex.path_hooks.append(bind.restore_state)
    core.EX = ex
    res = {"case": case, "paths": 0, "candidates": [], "unknown": 0, "checked": 0, "validated": 0,
           "validation_mismatch": [], "snap_miss": 0, "tags": {}, "samples": [], "errors": [],
           "exceptions": {}, "completed": 0}
    val_jobs = []

    def path_fn(ex):
        ctx = core.SymCtx(ex, known_regions=known)
        if fam.snap == "micro":
            ctx.grid_scale = 64     # k/64 is exactly representable AND on the 1e-6 lattice
        status = "ok"
        aborted = None
        try:
            fam.body(ctx, case)
        except (core.Abort, core.PrefixCut) as e:
            aborted = e
        except Exception as e:
            # The code under test (or the shim) raised on a feasible path.  Candidate: must be replayed.
            status = "exception:" + type(e).__name__
            tb = traceback.format_exc(limit=6)
            m = ex.path_model()
            if m is not None:
                ctx.candidates.append({"label": status, "region": None, "inputs": ctx.input_model(m),
                                       "detail": f"{e}"[:200], "tb": tb[-1500:]})
            res["exceptions"][status] = res["exceptions"].get(status, 0) + 1
        res["completed"] += 1
        res["checked"] += ctx.checked
        res["unknown"] += ctx.unknown
        for t in ctx.tags:
            res["tags"][t] = res["tags"].get(t, 0) + 1
        for c in ctx.candidates:
            c["inputs"] = {k: _jsonable(v) for k, v in c["inputs"].items()}
            if len(res["candidates"]) < 60:
                res["candidates"].append(c)
        if aborted is not None:
            raise aborted
        npath = res["completed"]
        want_val = (npath % fam.validate_every == 0) and len(val_jobs) < fam.max_validate and status == "ok"
        want_sample = len(res["samples"]) < 3
        if want_val or want_sample:
            env = ctx.final_inputs()
            if env is not None:
                if want_sample:
                    res["samples"].append({"inputs": {k: float(v) for k, v in env.items()},
                                           "decisions": len(ex.stack), "tags": sorted(ctx.tags),
                                           "notes": {k: _note_eval(ctx, v, env) for k, v in list(ctx.notes.items())[:12]}})
                if want_val:
                    genv = ctx.grid_inputs(64) if fam.snap == "micro" else snap_inputs(fam, env)
                    val_jobs.append((env, genv, bool(ctx.candidates)))
        return None

    try:
        ex.run_all(path_fn, prefix=prefix, deadline=t0 + fam.case_cap_s,
                   path_budget=(fam.split_paths if fam.split_paths > 0 else None))
    except Exception:
        res["errors"].append(traceback.format_exc(limit=8)[-2000:])
    finally:
        bind.uninstall()
        core.EX = None
    res["paths"] = ex.npaths
    res["decisions"] = ex.ndecisions
    res["forks"] = ex.nforks
    res["checks"] = ex.nchecks
    res["tsolve"] = ex.tsolve
    res["unknown"] += ex.unknowns
    res["nonlinear"] = ex.nonlinear
    res["timed_out"] = ex.timed_out
    res["xcheck"] = ex.xcheck
    res["prefixes"] = ex.prefixes
    # differential validation: same inputs through (a) engine with constants, (b) plain floats
    for env, envf, had_cand in val_jobs:
        if envf is not None:
            envf = {k: (float(v) if isinstance(v, Fraction) else v) for k, v in envf.items()}
        if fam.concrete_only_validation:
            if envf is None:
                continue
            try:
                b = run_concrete(fam, case, envf, "concrete")
            except Exception:
                res["errors"].append("validation crashed: " + traceback.format_exc(limit=6)[-1500:])
                continue
            if b["assumption_failed"]:
                res["snap_miss"] += 1
                continue
            for l in b["failed"][:3]:
                if len(res["candidates"]) < 80:
                    res["candidates"].append({"label": l, "region": None, "inputs": {k: _jsonable(v) for k, v in envf.items()},
                                              "detail": "failed on the real library: " + str(b.get("exception"))})
            res["validated"] += 1
            continue
        try:
            x = run_concrete(fam, case, env, "lift", exact=True)        # exact rational model: same path as the symbolic run
            if envf is None:            # no exactly-representable model on this path: engine-vs-float comparison skipped
                a = b = {"assumption_failed": True, "failed": [], "exception": None, "notes": {}}
            else:
                a = run_concrete(fam, case, envf, "lift")       # exactly representable inputs through the engine
                b = run_concrete(fam, case, envf, "concrete")   # the same inputs through the unmodified float code
        except Exception:
            res["errors"].append("validation crashed: " + traceback.format_exc(limit=6)[-1500:])
            continue
        bad = None
        if x["assumption_failed"]:
            bad = f"exact model violates a harness assumption: {x.get('why')}"
        elif x["failed"] and not had_cand:
            bad = f"solver proved the property on this path, but the exact model run fails {x['failed']}"
        if bad is None:
            if a["assumption_failed"] or b["assumption_failed"]:
                if a["assumption_failed"] != b["assumption_failed"]:
                    bad = "assumption outcome differs between engine and float run"
                else:
                    res["snap_miss"] += 1
                    res["validated"] += 1
                    continue
        if bad is None and envf is not None:
            # obligations that only the real float code can be asked (real pydantic validation, file channels):
            # a failure there is a counterexample with concrete inputs -> candidate (replayed in a fresh interpreter)
            extra = [l for l in b["failed"] if l not in a["failed"]]
            if extra and not a["failed"] and not a["exception"]:
                for l in extra[:3]:
                    if len(res["candidates"]) < 80:
                        res["candidates"].append({"label": l, "region": None, "inputs": {k: _jsonable(v) for k, v in envf.items()},
                                                  "detail": "failed on the concrete (float) run only: " + str(b.get("exception"))})
                res["validated"] += 1
                continue
        if bad is None:
            bad = _compare_runs(a, b)
            if bad is not None and envf is not None:
                # A difference on a model that sits exactly on a comparison boundary (z3 returns vertices) can be
                # float rounding at a tie.  A shim infidelity persists off the tie: re-run on perturbed inputs.
                persists = 0
                for j in (1, 2):
                    envp = {k: (v * (1.0 + (i + 1) * j * 2.0 ** -11) if isinstance(v, float) else v)
                            for i, (k, v) in enumerate(sorted(envf.items()))}
                    try:
                        a2 = run_concrete(fam, case, envp, "lift")
                        b2 = run_concrete(fam, case, envp, "concrete")
                    except Exception:
                        persists += 1
                        continue
                    if a2["assumption_failed"] and b2["assumption_failed"]:
                        continue
                    if _compare_runs(a2, b2) is not None:
                        persists += 1
                if persists == 0:
                    res["ties"] = res.get("ties", 0) + 1
                    bad = None
        if bad:
            if len(res["validation_mismatch"]) < 5:
                res["validation_mismatch"].append({"inputs": envf, "what": bad})
        else:
            res["validated"] += 1
    res["wall"] = time.time() - t0
    return res


def _compare_runs(a, b):
    if a["assumption_failed"] != b["assumption_failed"]:
        return "assumption outcome differs between engine and float run"
    if a["failed"] != b["failed"] or a["exception"] != b["exception"]:
        return f"outcome differs: lift={a['failed']}/{a['exception']} float={b['failed']}/{b['exception']}"
    for k, va in a["notes"].items():
        vb = b["notes"].get(k)
        if isinstance(va, float) and isinstance(vb, float):
            if abs(va - vb) > 1e-7 * max(1.0, abs(va), abs(vb)):
                return f"note {k}: engine {va!r} vs float {vb!r}"
        elif va != vb:
            return f"note {k}: engine {va!r} vs float {vb!r}"
    return None


def _note_eval(ctx, v, env):
    from . import core
    try:
        if isinstance(v, core.SymReal):
            num = core.p_eval(v.n, env_full(ctx, env))
            den = core.p_eval(v.d, env_full(ctx, env))
            return float(num / den)
        return core.to_float(v)
    except Exception:
        return None


def env_full(ctx, env):
    class _E(dict):
        def __missing__(self, k):
            return Fraction(0)
    return _E(env)


# ------------------------------------------------------------------------------------------------
def replay_file(path):
    """Fresh-interpreter entry: run the harness body concretely on the recorded inputs."""
    with open(path) as fh:
        rec = json.load(fh)
    mod, fam = _load_family(rec["property"], rec["family"])
    if fam.engine != "symx":
        return mod.replay(rec)
    out = run_concrete(fam, rec["case"], rec["inputs"], "concrete")
    print(json.dumps({"replay": path, **out}, default=str))
    if out["assumption_failed"]:
        print("NOT-REPRODUCED (snapped inputs leave the harness assumptions)")
        return 3
    if out["failed"]:
        print(f"REPRODUCED property={rec['property']} labels={out['failed']} regions={out['regions']}")
        return 1
    print("NOT-REPRODUCED")
    return 0


def _replay_subprocess(path):
    cmd = [sys.executable, os.path.join(VERIF, "run.py"), "--replay", path]
    p = subprocess.run(cmd, capture_output=True, text=True, timeout=600, cwd=VERIF)
    info = {}
    for line in p.stdout.splitlines():
        if line.startswith("{"):
            try:
                info = json.loads(line)
            except Exception:
                pass
    return p.returncode, info, p.stdout[-2000:] + p.stderr[-2000:]


def run_property(prop, tier, seed, jobs=None, only_family=None):
    t0 = time.time()
    jobs = jobs or int(os.environ.get("VERIF_JOBS", "16"))
    sys.path.insert(0, VERIF)
    mod = importlib.import_module(f"harness.{prop.lower()}")
    from . import bind
    known = _known_regions(prop)
    ev_fams = []
    all_candidates = []
    inconclusive = []
    totals = dict(paths=0, decisions=0, forks=0, checks=0, tsolve=0.0, validated=0, unknown=0, checked=0,
                  cases=0, nonlinear=0, snap_miss=0)
    xc = {"agree": 0, "disagree": 0, "cvc5_unknown": 0, "samples": []}
    os.environ["VERIF_XCHECK"] = "2" if tier == "thorough" else os.environ.get("VERIF_XCHECK", "1")
    samples = []
    ctxmp = mp.get_context("fork")
    try:
        bind.load()          # import OpenPinch once in the parent; forked workers inherit the modules
    except Exception as e:   # a broken tree is reported by the workers per case
        print("WARNING: preloading OpenPinch failed:", repr(e))
    for fam in mod.FAMILIES:
        if only_family and fam.name != only_family:
            continue
        tf = time.time()
        if fam.engine != "symx":
            r = mod.run_custom(fam, tier, seed, jobs)
            ev_fams.append(r["evidence"])
            all_candidates += r.get("candidates", [])
            inconclusive += r.get("inconclusive", [])
            for k in totals:
                totals[k] += r["evidence"].get(k, 0)
            samples += r["evidence"].get("samples", [])[:2]
            continue
        cases = fam.cases(tier, seed)
        if os.environ.get("VERIF_CASES"):      # debugging aid: run only the listed case indices
            sel = {int(x) for x in os.environ["VERIF_CASES"].split(",")}
            cases = [c for i, c in enumerate(cases) if i in sel]
        fam_tot = dict(paths=0, decisions=0, forks=0, checks=0, tsolve=0.0, validated=0, unknown=0, checked=0,
                       nonlinear=0, snap_miss=0)
        tags = {}
        fam_samples = []
        exceptions = {}
        tasks = []
        with cf.ProcessPoolExecutor(max_workers=jobs, mp_context=ctxmp) as pool:
            futs = {}
            for case in cases:
                a = (prop, fam.name, case, None, fam.split_depth > 0)
                futs[pool.submit(_explore_task, a)] = a
            pending = set(futs)
            # watchdog: tasks are short (split_paths paths each, every query under a time limit), but z3's nonlinear core can ignore its
            # limit (observed: nla::core::patch_monomial spinning for 20 min on a query made nonlinear by a seeded change).  No task
            # finishing for stall_s seconds => the workers are killed and the run is INCONCLUSIVE (exit 2), never a pass and never a hang.
            stall_s = float(os.environ.get("VERIF_STALL_S", "900" if tier == "quick" else "3600"))
            last_done = time.time()
            while pending:
                done, pending = cf.wait(pending, timeout=20, return_when=cf.FIRST_COMPLETED)
                if done:
                    last_done = time.time()
                elif time.time() - last_done > stall_s:
                    inconclusive.append(f"{fam.name}: no task returned for {stall_s:.0f} s (solver ignored its time limit); workers killed, {len(pending)} tasks unexplored")
                    for pr in list(getattr(pool, "_processes", {}).values()):
                        try:
                            pr.kill()
                        except Exception:
                            pass
                    pending = set()
                    break
                for f in done:
                    a = futs[f]
                    try:
                        r = f.result()
                    except Exception as e:
                        inconclusive.append(f"{fam.name}: worker crashed on case {a[2]}: {e!r}")
                        continue
                    for k in fam_tot:
                        fam_tot[k] += r.get(k, 0)
                    for k in ("agree", "disagree", "cvc5_unknown"):
                        xc[k] += r.get("xcheck", {}).get(k, 0)
                    xc["samples"] += r.get("xcheck", {}).get("samples", [])[:2]
                    if r.get("xcheck", {}).get("disagree"):
                        inconclusive.append(f"{fam.name}: z3 and cvc5 disagree on an obligation of case {r['case']}: {r['xcheck']['samples'][:1]}")
                    if os.environ.get("VERIF_DEBUG"):
                        print(f"  [task] {fam.name} prefix={'yes' if a[3] else 'no'} paths={r['paths']} checks={r['checks']} tsolve={r['tsolve']:.1f} wall={r['wall']:.1f} nprefix={len(r['prefixes'])} case={str(r['case'])[:150]}", flush=True)
                    for t, n in r["tags"].items():
                        tags[t] = tags.get(t, 0) + n
                    for t, n in r["exceptions"].items():
                        exceptions[t] = exceptions.get(t, 0) + n
                    for c in r["candidates"]:
                        c["family"] = fam.name
                        c["case"] = r["case"]
                        all_candidates.append(c)
                    if r["errors"]:
                        inconclusive.append(f"{fam.name}: engine error on case {r['case']}: {r['errors'][0][-600:]}")
                    if r["timed_out"]:
                        inconclusive.append(f"{fam.name}: safety cap hit on case {r['case']}")
                    if r["unknown"]:
                        inconclusive.append(f"{fam.name}: {r['unknown']} solver 'unknown' on case {r['case']}")
                    for vm in r["validation_mismatch"]:
                        inconclusive.append(f"{fam.name}: differential validation mismatch on case {r['case']}: {vm}")
                    if len(fam_samples) < 3:
                        for s in r["samples"][:1]:
                            fam_samples.append({"family": fam.name, "case": r["case"], **s})
                    for p in r["prefixes"]:
                        a2 = (prop, fam.name, r["case"], p, False)
                        f2 = pool.submit(_explore_task, a2)
                        futs[f2] = a2
                        pending.add(f2)
        missing = [t for t in fam.reach if not tags.get(t)]
        if missing:
            inconclusive.append(f"{fam.name}: reachability twin failed, no path witnessed {missing}")
        for k in fam_tot:
            totals[k] += fam_tot[k]
        totals["cases"] += len(cases)
        print(f"  [{prop} {tier}] family {fam.name}: cases={len(cases)} paths={fam_tot['paths']} queries={fam_tot['checks']} solver_s={fam_tot['tsolve']:.1f} "
              f"unknown={fam_tot['unknown']} wall={time.time() - tf:.1f}s", flush=True)
        samples += fam_samples[:2]
        ev_fams.append({
            "family": fam.name, "engine": fam.engine, "cases": len(cases), **{k: (round(v, 2) if isinstance(v, float) else v) for k, v in fam_tot.items()},
            "bounds": fam.bounds, "functions": fam.functions, "source_sha256_16": bind.source_hashes(fam.files),
            "assumptions": fam.assumptions, "reach_tags_witnessed": {t: tags.get(t, 0) for t in fam.reach},
            "other_tags": {t: n for t, n in tags.items() if t not in fam.reach}, "exceptions_on_paths": exceptions,
            "wall_s": round(time.time() - tf, 1),
        })
    # ---- replay candidates ----------------------------------------------------------------------
    os.makedirs(os.path.join(VERIF, "evidence", "replays"), exist_ok=True)
    lines = []
    violations = 0
    findings_seen = {}
    unreproduced = {}
    groups = {}
    for c in all_candidates:
        groups.setdefault((c.get("family"), c["label"], c["region"]), []).append(c)
    nrep = 0
    for (famname, label, region), cands in sorted(groups.items(), key=lambda kv: str(kv[0])):
        reproduced = None
        tried = 0
        for c in cands[:6]:
            if "replay_cmd" in c:      # custom engines bring their own replay
                rc, info, outtxt = c["replay_fn"](c) if "replay_fn" in c else (1, {}, "")
                path = c.get("replay_path", "")
            else:
                tried += 1
                nrep += 1
                path = os.path.join(VERIF, "evidence", "replays",
                                    f"{prop}_{famname}_{_slug(label)}_{region or 'main'}_{tried}.json")
                rec = {"property": prop, "family": famname, "case": c["case"], "label": label, "region": region,
                       "inputs": snap_inputs(_fam_by_name(mod, famname), _env_from_json(c["inputs"])), "detail": c.get("detail")}
                with open(path, "w") as fh:
                    json.dump(rec, fh, indent=1)
                rc, info, outtxt = _replay_subprocess(path)
            if rc == 1 and label not in info.get("failed", []):
                # the real code fails a different obligation (or does not raise this exception): this candidate is not
                # reproduced; the other failure has its own candidates
                rc = 0
            if rc == 1:
                reproduced = (path, info)
                break
            try:
                os.remove(path)
            except OSError:
                pass
        if reproduced:
            path, info = reproduced
            def explains(rid):       # a recorded finding explains this failure only for the obligations it lists
                labs = known[rid].get("labels") if rid in known else None
                return rid in known and (labs is None or any(x in label for x in labs))
            hit_known = [r for r in info.get("regions", []) if explains(r)]
            r = region if (region is not None and explains(region)) else (hit_known[0] if hit_known else None)
            if r is not None:
                if r not in findings_seen:
                    findings_seen[r] = path
                    lines.append(f"KNOWN-FINDING: property={prop} {known[r]['id']} {known[r]['what']} (replay={os.path.relpath(path, VERIF)})")
            else:
                violations += 1
                lines.append(f"VIOLATION property={prop} replay={os.path.relpath(path, VERIF)} family={famname} label={label}")
        else:
            unreproduced[(famname, label, region)] = len(cands)
    for k, n in unreproduced.items():
        if k[2] is None:
            inconclusive.append(f"{k[0]}: {n} solver counterexample(s) for '{k[1]}' did not reproduce on the real code (model/encoding suspect)")
    wall = time.time() - t0
    status = EXIT_VIOLATION if violations else (EXIT_INCONCLUSIVE if inconclusive else EXIT_OK)
    evidence = {
        "property_id": prop, "tier": tier, "seed": seed, "level": getattr(mod, "LEVEL", "model_checking"),
        "coverage": {
            "states": max(1, totals["paths"]), "transitions": max(1, totals["decisions"]),
            "traces_validated_against_impl": totals["validated"],
            "samples": samples[:6] or [{"note": "no sample recorded"}],
            "exhaustive": not inconclusive,
            "explanation": "states = feasible execution paths of the real functions explored to exhaustion inside the stated bounds; "
                           "transitions = solver-decided branch outcomes; per path the negated property is discharged by z3 "
                           "(unsat = holds for every input on that path).  traces_validated = path models re-run through the engine "
                           "with constants AND through the unmodified float code with identical outcome.",
            "cases": totals["cases"], "paths": totals["paths"], "forks": totals["forks"],
            "solver_queries": totals["checks"], "solver_seconds": round(totals["tsolve"], 2),
            "property_obligations_discharged": totals["checked"], "solver_unknown": totals["unknown"],
            "nonlinear_terms": totals["nonlinear"], "snap_miss": totals["snap_miss"],
            "families": ev_fams, "candidates_replayed": nrep,
            "known_findings_reproduced": sorted(findings_seen), "inconclusive": inconclusive[:20],
            "solver": _solver_version(),
            "second_solver_crosscheck": {"solver": "cvc5 (python wheel) on the SMT-LIB2 dump of the obligation query", "obligations_rechecked": xc["agree"] + xc["disagree"] + xc["cvc5_unknown"],
                                         "agree": xc["agree"], "disagree": xc["disagree"], "cvc5_unknown_or_error": xc["cvc5_unknown"]},
        },
        "assumptions": sorted({a for f in ev_fams for a in f.get("assumptions", [])} | set(getattr(mod, "ASSUMPTIONS", []))),
        "wall_s": round(wall, 2), "violations": violations,
    }
    os.makedirs(os.path.join(VERIF, "evidence"), exist_ok=True)
    with open(os.path.join(VERIF, "evidence", f"{prop}.json"), "w") as fh:
        json.dump(evidence, fh, indent=1, default=str)
    for ln in lines:
        print(ln)
    for s in inconclusive[:20]:
        print("INCONCLUSIVE:", s)
    print(f"[{prop} {tier}] cases={totals['cases']} paths={totals['paths']} forks={totals['forks']} queries={totals['checks']} "
          f"solver_s={totals['tsolve']:.1f} obligations={totals['checked']} validated={totals['validated']} "
          f"violations={violations} known={len(findings_seen)} inconclusive={len(inconclusive)} wall={wall:.1f}s")
    return status


def _fam_by_name(mod, name):
    for f in mod.FAMILIES:
        if f.name == name:
            return f
    return None


def _slug(s):
    return "".join(ch if ch.isalnum() else "_" for ch in s)[:40]


def _solver_version():
    try:
        import z3
        return "z3 " + z3.get_version_string()
    except Exception:
        return "?"
