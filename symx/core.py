"""symx.core -- symbolic reals, path explorer and the three execution contexts.

The repository's own functions are executed on `SymReal` values (exact rational
functions over named unknowns, lowered to z3 Real terms).  Every comparison that
reaches ``__bool__`` is a solver decision; `Explorer.run_all` enumerates all
feasible decision sequences (paths) by depth-first re-execution.

Three contexts share one harness body:
  SymCtx       symbolic run (shims installed), properties decided by z3 per path
  LiftCtx      engine run with *constant* SymReals (shims installed) -- shim validation
  ConcreteCtx  plain floats on the unmodified modules -- replay / differential oracle
"""
from __future__ import annotations

import math
import time
from fractions import Fraction

import numpy as _np
import z3


class Abort(BaseException):
    """Path cannot continue (infeasible / cut).  BaseException so bare `except Exception` in the
    code under test cannot swallow it."""


class PrefixCut(BaseException):
    """Raised in prefix-enumeration mode when the decision depth limit is reached."""


class AssumptionFailed(Exception):
    """Concrete replay: the snapped model no longer satisfies a harness assumption."""


# ------------------------------------------------------------------ polynomials
# Poly: dict {monomial: Fraction}; monomial = tuple of sorted (var, exp) pairs; () = constant
_ONE = Fraction(1)
_ZERO = Fraction(0)


def p_const(c):
    c = Fraction(c)
    return {(): c} if c != 0 else {}


def p_var(v):
    return {((v, 1),): _ONE}


def p_add(a, b):
    if not b:
        return a
    if not a:
        return b
    r = dict(a)
    for m, c in b.items():
        n = r.get(m, 0) + c
        if n == 0:
            r.pop(m, None)
        else:
            r[m] = n
    return r


def p_sub(a, b):
    if not b:
        return a
    r = dict(a)
    for m, c in b.items():
        n = r.get(m, 0) - c
        if n == 0:
            r.pop(m, None)
        else:
            r[m] = n
    return r


def p_neg(a):
    return {m: -c for m, c in a.items()}


def p_scale(a, k):
    if k == 0:
        return {}
    if k == 1:
        return a
    return {m: c * k for m, c in a.items()}


def m_mul(m1, m2):
    if not m1:
        return m2
    if not m2:
        return m1
    d = dict(m1)
    for v, e in m2:
        d[v] = d.get(v, 0) + e
    return tuple(sorted(d.items()))


def p_mul(a, b):
    if not a or not b:
        return {}
    if len(b) == 1 and () in b:
        return p_scale(a, b[()])
    if len(a) == 1 and () in a:
        return p_scale(b, a[()])
    r = {}
    for m1, c1 in a.items():
        for m2, c2 in b.items():
            m = m_mul(m1, m2)
            n = r.get(m, 0) + c1 * c2
            if n == 0:
                r.pop(m, None)
            else:
                r[m] = n
    return r


def p_is_const(a):
    return not a or (len(a) == 1 and () in a)


def p_cval(a):
    return a.get((), _ZERO)


def p_deg(a):
    return max((sum(e for _, e in m) for m in a), default=0)


def m_div(m1, m2):
    d = dict(m1)
    for v, e in m2:
        if d.get(v, 0) < e:
            return None
        d[v] -= e
        if d[v] == 0:
            del d[v]
    return tuple(sorted(d.items()))


def _lead(a):
    return max(a, key=lambda m: (sum(e for _, e in m), m))


def p_divexact(a, b):
    """Return q with a == q*b, or None when b does not divide a."""
    if not b:
        return None
    if not a:
        return {}
    q = {}
    r = dict(a)
    lb = _lead(b)
    cb = b[lb]
    guard = 0
    while r:
        guard += 1
        if guard > 400:
            return None
        lr = _lead(r)
        md = m_div(lr, lb)
        if md is None:
            return None
        k = r[lr] / cb
        q[md] = q.get(md, 0) + k
        r = p_sub(r, p_mul({md: k}, b))
    return q


def p_key(a):
    return tuple(sorted(a.items()))


def p_vars(a):
    s = set()
    for m in a:
        for v, _ in m:
            s.add(v)
    return s


def p_eval(a, env):
    tot = _ZERO
    for m, c in a.items():
        t = c
        for v, e in m:
            t = t * Fraction(env[v]) ** e
        tot += t
    return tot


# ------------------------------------------------------------------ z3 lowering
_zvars = {}
_ufapps = {}      # var name -> (fname, SymReal arg)
_uffuncs = {}
_zcache = {}


def uf_func(fname, arity=1):
    if fname not in _uffuncs:
        _uffuncs[fname] = z3.Function(fname, *([z3.RealSort()] * (arity + 1)))
    return _uffuncs[fname]


def zvar(name):
    t = _zvars.get(name)
    if t is None:
        if name in _ufapps:
            fname, args = _ufapps[name]
            t = uf_func(fname, len(args))(*[a.t for a in args])
        else:
            t = z3.Real(name)
        _zvars[name] = t
    return t


def p_to_z3(a):
    if not a:
        return z3.RealVal(0)
    k = p_key(a)
    t = _zcache.get(k)
    if t is not None:
        return t
    terms = []
    for m, c in a.items():
        if not m:
            terms.append(z3.RealVal(str(c)))
            continue
        t = None
        for v, e in m:
            for _ in range(e):
                t = zvar(v) if t is None else t * zvar(v)
        if c != 1:
            t = z3.RealVal(str(c)) * t
        terms.append(t)
    t = z3.Sum(terms) if len(terms) > 1 else terms[0]
    if len(_zcache) > 200000:
        _zcache.clear()
    _zcache[k] = t
    return t


EX = None  # the active Explorer (symbolic / lifted runs)


def _isarr(o):
    return isinstance(o, _np.ndarray)


def _is_special_float(o):
    return isinstance(o, (float, _np.floating)) and (o != o or o in (math.inf, -math.inf))


# ------------------------------------------------------------------ SymBool
class SymBool:
    __slots__ = ("_t", "key", "want", "mk")

    def __init__(s, t=None, key=None, want=None, mk=None):
        s._t = t
        s.key = key
        s.want = want
        s.mk = mk

    @property
    def t(s):
        if s._t is None:
            s._t = s.mk()
        return s._t

    def __bool__(s):
        if s.key is not None:
            return EX.decide_sign(s.key, s.want, s)
        return EX.decide(s.t)

    def __and__(s, o):
        if _isarr(o):
            return NotImplemented
        if isinstance(o, (bool, _np.bool_)):
            return s if o else False
        return SymBool(z3.And(s.t, _b(o)))

    __rand__ = __and__

    def __or__(s, o):
        if _isarr(o):
            return NotImplemented
        if isinstance(o, (bool, _np.bool_)):
            return True if o else s
        return SymBool(z3.Or(s.t, _b(o)))

    __ror__ = __or__

    def __invert__(s):
        if s.key is not None:
            return SymBool(key=s.key, want=7 & ~s.want, mk=_mk_sign(s.key, 7 & ~s.want))
        return SymBool(z3.Not(s.t))

    def __mul__(s, o):
        if _isarr(o):
            return NotImplemented
        if isinstance(o, (float, _np.floating)) and o != o:
            return float("nan")
        return lift(o) if bool(s) else 0.0

    __rmul__ = __mul__

    def __eq__(s, o):
        if isinstance(o, (bool, _np.bool_)):
            return s if o else ~s
        if isinstance(o, SymBool):
            return SymBool(s.t == o.t)
        return NotImplemented

    def __hash__(s):
        return 0

    def __deepcopy__(s, memo):
        return s

    def __repr__(s):
        return f"SB({s.t})"


def _b(o):
    if isinstance(o, SymBool):
        return o.t
    return z3.BoolVal(bool(o))


_ZOPS = {
    1: lambda a: a < 0,
    3: lambda a: a <= 0,
    2: lambda a: a == 0,
    5: lambda a: a != 0,
    4: lambda a: a > 0,
    6: lambda a: a >= 0,
}


def _mk_sign(key, want):
    def mk():
        if want == 7:
            return z3.BoolVal(True)
        if want == 0:
            return z3.BoolVal(False)
        return _ZOPS[want](p_to_z3(dict(key)))
    return mk


def sb_and(*xs):
    ts = []
    for x in xs:
        if isinstance(x, SymBool):
            ts.append(x.t)
        elif not x:
            return False
    if not ts:
        return True
    return SymBool(z3.And(*ts))


def sb_or(*xs):
    ts = []
    for x in xs:
        if isinstance(x, SymBool):
            ts.append(x.t)
        elif x:
            return True
    if not ts:
        return False
    return SymBool(z3.Or(*ts))


def sb_not(x):
    if isinstance(x, SymBool):
        return ~x
    return not x


# ------------------------------------------------------------------ SymReal
def _frac(o):
    if isinstance(o, Fraction):
        return o
    if isinstance(o, bool):
        return Fraction(int(o))
    if isinstance(o, int):
        return Fraction(o)
    if isinstance(o, float):
        return Fraction(o)
    if isinstance(o, _np.floating):
        return Fraction(float(o))
    if isinstance(o, _np.integer):
        return Fraction(int(o))
    if isinstance(o, _np.bool_):
        return Fraction(int(o))
    raise TypeError(f"cannot lift {type(o)}")


_P_ONE = {(): _ONE}


def _mono_content(polys):
    """Largest monomial dividing every term of every polynomial in `polys`."""
    common = None
    for p in polys:
        for m in p:
            dm = dict(m)
            if common is None:
                common = dm
            else:
                common = {v: min(e, dm[v]) for v, e in common.items() if v in dm}
            if not common:
                return ()
    return tuple(sorted(common.items())) if common else ()


def _p_div_mono(p, mono):
    return {m_div(m, mono): c for m, c in p.items()}


def _uni_gcd(a, b, var):
    """gcd of two polynomials that are univariate in `var` (Euclid over Q); dense coefficient lists."""
    def dense(p):
        deg = max((m[0][1] if m else 0) for m in p)
        out = [_ZERO] * (deg + 1)
        for m, c in p.items():
            out[m[0][1] if m else 0] = c
        return out
    def trim(x):
        while x and x[-1] == 0:
            x.pop()
        return x
    x, y = trim(dense(a)), trim(dense(b))
    while y:
        # x mod y
        r = list(x)
        while len(r) >= len(y) and r:
            k = r[-1] / y[-1]
            sh = len(r) - len(y)
            for i, c in enumerate(y):
                r[sh + i] -= k * c
            trim(r)
        x, y = y, r
    if len(x) <= 1:
        return None
    lead = x[-1]
    g = {}
    for i, c in enumerate(x):
        if c != 0:
            g[((var, i),) if i else ()] = c / lead
    return g


def _cancel_common(n, d):
    mono = _mono_content([n, d])
    if mono:
        n, d = _p_div_mono(n, mono), _p_div_mono(d, mono)
    vs = p_vars(n) | p_vars(d)
    if len(vs) == 1 and not p_is_const(n) and not p_is_const(d):
        (var,) = vs
        if p_deg(n) <= 12 and p_deg(d) <= 12:
            g = _uni_gcd(n, d, var)
            if g is not None:
                qn, qd = p_divexact(n, g), p_divexact(d, g)
                if qn is not None and qd is not None:
                    n, d = qn, qd
    return n, d


class SymReal:
    """Rational function num/den over exact polynomials; den stays 1 whenever division is exact."""

    __slots__ = ("n", "d", "_z")

    def __init__(s, n, d=None):
        s.n = n
        s.d = d if d is not None else _P_ONE
        s._z = None

    @property
    def t(s):
        if s._z is None:
            if p_is_const(s.d):
                s._z = p_to_z3(p_scale(s.n, 1 / p_cval(s.d)))
            else:
                if EX is not None:
                    EX.nonlinear += 1
                s._z = p_to_z3(s.n) / p_to_z3(s.d)
        return s._z

    def is_const(s):
        return p_is_const(s.n) and p_is_const(s.d)

    def const_value(s):
        return p_cval(s.n) / p_cval(s.d)

    def __repr__(s):
        if s.is_const():
            return f"SR({float(s.const_value())!r})"
        return f"SR({z3.simplify(s.t)})"

    @staticmethod
    def mk(n, d):
        if not p_is_const(d) and n:
            n, d = _cancel_common(n, d)
        if p_is_const(d):
            c = p_cval(d)
            return SymReal(n if c == 1 else p_scale(n, 1 / c))
        q = p_divexact(n, d)
        if q is not None:
            return SymReal(q)
        if n:
            q = p_divexact(d, n)          # n | d  ->  1 / (d/n)
            if q is not None:
                if p_is_const(q):
                    return SymReal(p_const(1 / p_cval(q)))
                return SymReal(_P_ONE, q)
        return SymReal(n, d)

    def __add__(s, o):
        if _isarr(o):
            return NotImplemented
        if isinstance(o, (float, _np.floating)) and _is_special_float(o):
            return float(o)
        o = lift(o)
        if s.d is o.d or s.d == o.d:
            return SymReal.mk(p_add(s.n, o.n), s.d)
        return SymReal.mk(p_add(p_mul(s.n, o.d), p_mul(o.n, s.d)), p_mul(s.d, o.d))

    __radd__ = __add__

    def __neg__(s):
        return SymReal(p_neg(s.n), s.d)

    def __pos__(s):
        return s

    def __sub__(s, o):
        if _isarr(o):
            return NotImplemented
        if isinstance(o, (float, _np.floating)) and _is_special_float(o):
            return -float(o)
        return s + (-lift(o))

    def __rsub__(s, o):
        if _isarr(o):
            return NotImplemented
        if isinstance(o, (float, _np.floating)) and _is_special_float(o):
            return float(o)
        return lift(o) + (-s)

    def __mul__(s, o):
        if _isarr(o):
            return NotImplemented
        if isinstance(o, SymBool):
            return o.__mul__(s)
        if isinstance(o, (float, _np.floating)) and _is_special_float(o):
            if o != o:
                return float("nan")
            sg = 1 if bool(s > 0) else (-1 if bool(s < 0) else 0)
            return float("nan") if sg == 0 else sg * float(o)
        o = lift(o)
        return SymReal.mk(p_mul(s.n, o.n), p_mul(s.d, o.d))

    __rmul__ = __mul__

    def __truediv__(s, o):
        if _isarr(o):
            return NotImplemented
        if isinstance(o, (float, _np.floating)) and _is_special_float(o):
            return float("nan") if o != o else lift(0.0)
        o = lift(o)
        if bool(o == 0):
            raise ZeroDivisionError("division by a symbolic value that can be zero")
        return SymReal.mk(p_mul(s.n, o.d), p_mul(s.d, o.n))

    def __rtruediv__(s, o):
        if _isarr(o):
            return NotImplemented
        if isinstance(o, (float, _np.floating)) and _is_special_float(o):
            if o != o:
                return float("nan")
            sg = 1 if bool(s > 0) else -1
            return sg * float(o)
        return lift(o).__truediv__(s)

    def __pow__(s, k):
        if isinstance(k, SymReal) and k.is_const():
            k = k.const_value()
        if isinstance(k, (int, _np.integer)) or (isinstance(k, (float, Fraction)) and float(k).is_integer()):
            k = int(k)
            if k >= 0:
                r = lift(1)
                for _ in range(k):
                    r = r * s
                return r
            return lift(1) / (s ** (-k))
        if s.is_const() and isinstance(k, (float, Fraction)):
            return lift(float(s.const_value()) ** float(k))
        from . import uf
        return uf.power(s, k)

    def __rpow__(s, base):
        from . import uf
        return uf.rpower(base, s)

    def __abs__(s):
        return s if bool(s >= 0) else -s

    def _cmp(s, o, op):
        if _isarr(o):
            return NotImplemented
        if o is None:
            return NotImplemented
        if isinstance(o, (float, _np.floating)) and _is_special_float(o):
            fo = float(o)
            if fo != fo:
                return op == "!="
            big = fo > 0
            return {"<": big, "<=": big, "==": False, "!=": True, ">": not big, ">=": not big}[op]
        try:
            o = lift(o)
        except TypeError:
            return NotImplemented
        want = {"<": 1, "<=": 3, "==": 2, "!=": 5, ">": 4, ">=": 6}[op]
        if p_is_const(s.d) and p_is_const(o.d):
            diff = p_sub(p_scale(s.n, 1 / p_cval(s.d)), p_scale(o.n, 1 / p_cval(o.d)))
            if p_is_const(diff):
                c = p_cval(diff)
                sg = 1 if c < 0 else (2 if c == 0 else 4)
                return bool(sg & want)
            lm = _lead(diff)
            k = diff[lm]
            canon = p_scale(diff, 1 / k)
            if k < 0:
                want = ((want & 1) << 2) | (want & 2) | ((want & 4) >> 2)
            key = p_key(canon)
            return SymBool(key=key, want=want, mk=_mk_sign(key, want))
        # rational functions: decide sign of the denominators, cross-multiply
        num = p_sub(p_mul(s.n, o.d), p_mul(o.n, s.d))
        den = p_mul(s.d, o.d)
        dpos = bool(SymReal(den) > 0)
        nn = SymReal(num) if dpos else SymReal(p_neg(num))
        return nn._cmp(0, op)

    def __lt__(s, o):
        return s._cmp(o, "<")

    def __le__(s, o):
        return s._cmp(o, "<=")

    def __gt__(s, o):
        return s._cmp(o, ">")

    def __ge__(s, o):
        return s._cmp(o, ">=")

    def __eq__(s, o):
        if o is None or isinstance(o, str):
            return False
        return s._cmp(o, "==")

    def __ne__(s, o):
        if o is None or isinstance(o, str):
            return True
        return s._cmp(o, "!=")

    def __hash__(s):
        return 0

    def __bool__(s):
        # truthiness of a float: x != 0 (a solver decision)
        return bool(s != 0)

    def __deepcopy__(s, memo):
        return s          # immutable

    def __copy__(s):
        return s

    # numpy hands back the element itself where float arrays give a numpy scalar (0-d array arithmetic, reductions of one
    # element); the scalar methods the library then calls on it:
    ndim = 0
    size = 1
    shape = ()

    def min(s, *a, **k):
        return s

    def max(s, *a, **k):
        return s

    def sum(s, *a, **k):
        return s

    def item(s):
        return s

    def round(s, d=0):
        return round_dp(s, d)

    def __float__(s):
        if s.is_const():
            return float(s.const_value())
        raise TypeError("concretisation of a symbolic SymReal via float()")

    def __round__(s, nd=None):
        return round_dp(s, nd or 0)

    # numpy object-array ufunc hooks
    def sqrt(s):
        from . import uf
        return uf.sqrt(s)

    def exp(s):
        from . import uf
        return uf.exp(s)

    def log(s):
        from . import uf
        return uf.log(s)

    def conjugate(s):
        return s


def lift(o):
    if isinstance(o, SymReal):
        return o
    return SymReal(p_const(_frac(o)))


def real_var(name):
    return SymReal(p_var(name))


def T(o):
    """z3 term of a value (SymReal | number)."""
    return lift(o).t


def is_sym(x):
    return isinstance(x, (SymReal, SymBool))


# rounding model ------------------------------------------------------------------------------
ROUND_IDENTITY_DP = 6   # round(x, >=6) is the identity (inputs on the 1e-6 lattice; see DESIGN 1.3)


def round_dp(x, d):
    """Model of round(x, d) for SymReal.

    d >= ROUND_IDENTITY_DP: identity (lattice assumption).  Smaller d: a fresh real r with
    |r - x| <= 0.5*10^-d; equal arguments share r (cache keyed by canonical form)."""
    if not isinstance(x, SymReal):
        return round(x, d)
    if EX is not None and getattr(EX, "exact_replay", False):
        # exact-model re-run of a symbolic path: same rounding model as the symbolic run
        if d >= ROUND_IDENTITY_DP or EX.round_identity:
            return x
        return lift(round(float(x.const_value()), d)) if x.is_const() else x
    if x.is_const() and (EX is None or getattr(EX, "lift_mode", False) or d < ROUND_IDENTITY_DP):
        return lift(round(float(x.const_value()), d))
    if d >= ROUND_IDENTITY_DP or EX is None or EX.round_identity:
        return x
    return EX.rounded(x, d)


# ------------------------------------------------------------------ Explorer
class Explorer:
    def __init__(self, timeout_ms=20000, logic=None, verbose=False, round_identity=False):
        self.solver = z3.SolverFor(logic) if logic else z3.Solver()
        self.solver.set("timeout", timeout_ms)
        self._timeout_ms = timeout_ms
        self.stack = []
        self.pos = 0
        self.nchecks = 0
        self.tsolve = 0.0
        self.npaths = 0
        self.unknowns = 0
        self.verbose = verbose
        self.nonlinear = 0
        self.known = {}
        self.hits = 0
        self.model = None
        self.ndecisions = 0        # decision nodes created (both-feasible or forced), = tree nodes
        self.nforks = 0
        self.prefix_limit = None   # prefix-enumeration mode
        self.prefixes = []
        self.round_identity = round_identity
        self._rounded = {}
        self.path_hooks = []       # callables run at the start of each path (reset per-path registries)
        self.deadline = None
        self.timed_out = False
        self.grid_budget = 4       # exactly-representable counterexample models requested per task (each may cost seconds)
        self.diverse_budget = 12   # extra counterexample models per task that differ from the first in one input (moves off tolerance boundaries)
        self.xcheck_budget = 0     # property obligations of this task that are re-decided by cvc5 (second solver)
        self.xcheck = {"agree": 0, "disagree": 0, "cvc5_unknown": 0, "samples": []}

    # --- solver plumbing
    def assume(self, c):
        if isinstance(c, SymBool):
            c = c.t
        elif isinstance(c, (bool, _np.bool_)):
            if c:
                return
            raise Abort("assumption is constant False")
        self.solver.add(c)
        if self.model is not None:
            try:
                if not z3.is_true(self.model.eval(c, model_completion=True)):
                    self.model = None
            except Exception:
                self.model = None

    def check(self, *extra, optional=False):
        """`optional`: a best-effort query under a short time limit (grid / dyadic models); `unknown` is then simply 'no model',
        never retried with the long limit (a retried mixed-integer grid query once cost 80 s each and stalled whole runs)."""
        if self.deadline is not None and time.time() > self.deadline:
            self.timed_out = True
            raise Abort("deadline")
        t = time.time()
        r = self.solver.check(*extra)
        if str(r) == "unknown" and not optional:
            # a query that ran into the per-query time limit (machine load) is retried with four times the limit and, if z3 still
            # gives up, handed to cvc5; only then does it count as `unknown` (inconclusive, never a verdict)
            self.retries = getattr(self, "retries", 0) + 1
            try:
                self.solver.set("timeout", 4 * ex_timeout(self))
                r = self.solver.check(*extra)
            finally:
                self.solver.set("timeout", ex_timeout(self))
            if str(r) == "unknown" and cvc5_decide(self.solver, list(extra), tlimit_ms=4 * ex_timeout(self)) == "unsat":
                r = z3.unsat
        dt = time.time() - t
        self.tsolve += dt
        self.nchecks += 1
        if dt > 2.0 and self.verbose:
            print("SLOW check %.1fs %s depth %d" % (dt, r, len(self.stack)), flush=True)
        return r

    def rounded(self, x, d):
        key = (p_key(x.n), p_key(x.d), d)
        r = self._rounded.get(key)
        if r is None:
            name = f"rnd{d}_{len(self._rounded)}"
            r = real_var(name)
            self._rounded[key] = r
        half = Fraction(1, 2 * 10 ** d)
        self.solver.add(z3.And(r.t - x.t <= z3.RealVal(str(half)), x.t - r.t <= z3.RealVal(str(half))))
        self.model = None
        return r

    # --- decisions
    def decide_sign(self, key, want, sb):
        mask = self.known.get(key, 7)
        if mask & want == mask:
            self.hits += 1
            return True
        if mask & want == 0:
            self.hits += 1
            return False
        r = self.decide(sb.t)
        self.known[key] = (mask & want) if r else (mask & ~want)
        return r

    def decide(self, term):
        if z3.is_true(term):
            return True
        if z3.is_false(term):
            return False
        if self.pos < len(self.stack):
            choice = self.stack[self.pos][0]
            self.pos += 1
            self.solver.add(term if choice else z3.Not(term))
            self.model = None
            return choice
        guess = None
        if self.model is not None:
            try:
                v = self.model.eval(term, model_completion=True)
                guess = True if z3.is_true(v) else (False if z3.is_false(v) else None)
            except Exception:
                guess = None
        mt = mf = None
        if guess is True:
            st = "sat"
            mt = self.model
            sf = str(self.check(z3.Not(term)))
            if sf == "sat":
                mf = self.solver.model()
        elif guess is False:
            sf = "sat"
            mf = self.model
            st = str(self.check(term))
            if st == "sat":
                mt = self.solver.model()
        else:
            st = str(self.check(term))
            if st == "sat":
                mt = self.solver.model()
            sf = str(self.check(z3.Not(term)))
            if sf == "sat":
                mf = self.solver.model()
        if st == "unknown" or sf == "unknown":
            self.unknowns += 1
        can_t = st != "unsat"
        can_f = sf != "unsat"
        if can_t and can_f:
            if self.prefix_limit is not None and len(self.stack) >= self.prefix_limit:
                self.prefixes.append([e[0] for e in self.stack])
                raise PrefixCut()
            self.stack.append([True, False])
            choice = True
            self.nforks += 1
        elif can_t:
            self.stack.append([True, True])
            choice = True
        elif can_f:
            self.stack.append([False, True])
            choice = False
        else:
            raise Abort("infeasible")
        self.ndecisions += 1
        self.pos += 1
        self.solver.add(term if choice else z3.Not(term))
        self.model = mt if choice else mf
        return choice

    def choice(self, name, n):
        """Finite-domain nondeterministic choice in range(n), resolved by solver decisions."""
        v = z3.Int(name)
        self.solver.add(z3.And(v >= 0, v < n))
        self.model = None
        for k in range(n - 1):
            if self.decide(v == k):
                return k
        return n - 1

    def path_model(self, extra=()):
        r = self.check(*extra)
        if str(r) == "sat":
            return self.solver.model()
        return None

    # --- driver
    def run_all(self, fn, prefix=None, max_paths=10 ** 9, deadline=None, path_budget=None):
        """Run fn(self) on every feasible path.  `prefix`: list of forced decisions (sub-tree).
        `path_budget`: after that many paths, stop and hand the unexplored sibling sub-trees back in
        self.prefixes (work splitting; nothing is dropped)."""
        results = []
        self.deadline = deadline
        if prefix:
            self.stack = [[c, True] for c in prefix]
        while True:
            self.pos = 0
            self.known = {}
            self.model = None
            self._rounded = {}
            for h in self.path_hooks:
                h()
            self.solver.push()
            try:
                try:
                    results.append(fn(self))
                except Abort:
                    pass
                except PrefixCut:
                    pass
            finally:
                self.solver.pop()
            self.npaths += 1
            if self.verbose and self.npaths % 200 == 0:
                print("paths", self.npaths, "checks", self.nchecks, "tsolve %.1f" % self.tsolve, flush=True)
            if self.timed_out:
                break
            while self.stack and self.stack[-1][1]:
                self.stack.pop()
            if not self.stack or self.npaths >= max_paths:
                break
            if path_budget is not None and self.npaths >= path_budget:
                for i, (c, done) in enumerate(self.stack):
                    if not done:
                        self.prefixes.append([e[0] for e in self.stack[:i]] + [not c])
                self.stack = []
                break
            self.stack[-1] = [not self.stack[-1][0], True]
        return results


# ------------------------------------------------------------------ contexts
def _model_value(model, term):
    v = model.eval(term, model_completion=True)
    if z3.is_rational_value(v):
        return Fraction(v.numerator_as_long(), v.denominator_as_long())
    if z3.is_int_value(v):
        return Fraction(v.as_long())
    if z3.is_algebraic_value(v):
        a = v.approx(20)
        return Fraction(a.numerator_as_long(), a.denominator_as_long())
    raise ValueError(f"cannot read model value {v}")


GRID_BITS = 30


class SymCtx:
    """Symbolic context: one instance per path."""

    mode = "sym"
    symbolic = True

    def __init__(self, ex: Explorer, known_regions=()):
        self.ex = ex
        self.inputs = {}       # name -> ("real", lo, hi, grid) | ("choice", n)
        self.order = []
        self.regions = []      # (id, z3 term)
        # region id -> None (the finding explains any obligation inside the region) or a list of label substrings it explains
        self.known_regions = dict(known_regions) if isinstance(known_regions, dict) else {r: None for r in known_regions}
        self.candidates = []   # dicts
        self.notes = {}
        self.checked = 0
        self.unknown = 0
        self.tags = set()
        self.grid_scale = 2 ** GRID_BITS

    def real(self, name, lo=None, hi=None, grid=None):
        x = real_var(name)
        self.inputs[name] = ("real", lo, hi, grid)
        self.order.append(name)
        cs = []
        if lo is not None:
            cs.append(x.t >= z3.RealVal(str(Fraction(lo))))
        if hi is not None:
            cs.append(x.t <= z3.RealVal(str(Fraction(hi))))
        if cs:
            self.ex.assume(z3.And(*cs))
        return x

    def const(self, v):
        return lift(v)

    def choice(self, name, n):
        self.inputs[name] = ("choice", n)
        self.order.append(name)
        return self.ex.choice(name, n)

    def assume(self, cond):
        self.ex.assume(cond)

    def region(self, rid, cond):
        self.regions.append((rid, _b(cond)))

    def tag(self, t):
        self.tags.add(t)

    def note(self, key, value):
        self.notes[key] = value

    def exact(self, x):
        return x

    def holds(self, cond):
        """Branch on a condition (forks)."""
        return bool(cond)

    def ite(self, cond, a, b):
        """if-then-else value without forking: a fresh real r with (cond -> r = a) and (not cond -> r = b)."""
        if isinstance(cond, (bool, _np.bool_)):
            return a if cond else b
        self._nite = getattr(self, "_nite", 0) + 1
        r = real_var(f"ite!{self._nite}")
        c = cond.t
        self.ex.solver.add(z3.And(z3.Implies(c, r.t == T(a)), z3.Implies(z3.Not(c), r.t == T(b))))
        if self.ex.model is not None:
            self.ex.model = None
        return r

    def _grid_constraints(self, scale=64):
        cs = []
        for name, spec in self.inputs.items():
            if spec[0] == "real":
                k = z3.Int("k!" + name)
                cs.append(zvar(name) * scale == z3.ToReal(k))
        return cs

    def input_model(self, model):
        env = {}
        for name, spec in self.inputs.items():
            if spec[0] == "real":
                env[name] = _model_value(model, zvar(name))
            else:
                env[name] = int(_model_value(model, z3.Int(name)))
        return env

    def grid_inputs(self, scale=64, timeout_ms=1000):
        """A model of the current path whose real inputs are all multiples of 1/scale (or None)."""
        ex = self.ex
        m = None
        try:
            ex.solver.push()
            ex.solver.set("timeout", timeout_ms)
            for c in self._grid_constraints(scale):
                ex.solver.add(c)
            if str(ex.check(optional=True)) == "sat":
                m = ex.solver.model()
        finally:
            ex.solver.pop()
            ex.solver.set("timeout", ex_timeout(ex))
        return self.input_model(m) if m is not None else None

    def _find_model(self, extra, grid=False):
        """sat model of pc + extra; with grid=True prefer dyadic (2^-GRID_BITS) input values so that the
        float replay is exact (falls back to the plain model when the mixed-integer query is not quick)."""
        ex = self.ex
        r = str(ex.check(*extra))
        if r != "sat":
            return r, None
        m = ex.solver.model()
        if not grid:
            return "sat", m
        try:
            ex.solver.push()
            ex.solver.set("timeout", 3000)
            for c in list(extra) + self._grid_constraints(self.grid_scale):
                ex.solver.add(c)
            r2 = str(ex.check(optional=True))
            if r2 == "sat":
                m = ex.solver.model()
        finally:
            ex.solver.pop()
            ex.solver.set("timeout", ex_timeout(ex))
        return "sat", m

    def require(self, cond, label, robust=None):
        """Property assertion: search pc & not cond for a counterexample, then assume cond.
        `robust`: a weaker condition (cond implies robust); a model violating it violates cond with a margin and is
        preferred as the counterexample handed to the float replay (over-approximated rounding cannot mask it)."""
        self.checked += 1
        ex = self.ex
        if robust is not None and not isinstance(robust, (bool, _np.bool_)) and not isinstance(cond, (bool, _np.bool_)):
            known0 = [t for rid, t in self.regions if self._explains(rid, label)]
            r0, m0 = self._find_model([z3.Not(robust.t)] + [z3.Not(t) for t in known0])
            if r0 == "sat":
                self.candidates.append({"label": label, "region": None, "inputs": self.input_model(m0)})
        if isinstance(cond, (bool, _np.bool_)):
            if cond:
                return
            neg = z3.BoolVal(True)
            pos = None
        else:
            neg = z3.Not(cond.t)
            pos = cond.t
        known = [t for rid, t in self.regions if self._explains(rid, label)]
        outside = [z3.Not(t) for t in known]
        r, m = self._find_model([neg] + outside)
        if ex.xcheck_budget > 0 and r in ("sat", "unsat"):
            ex.xcheck_budget -= 1
            r2 = cvc5_decide(ex.solver, [neg] + outside)
            if r2 == r:
                ex.xcheck["agree"] += 1
            elif r2 in ("sat", "unsat"):
                ex.xcheck["disagree"] += 1
                ex.xcheck["samples"].append({"label": label, "z3": r, "cvc5": r2})
            else:
                ex.xcheck["cvc5_unknown"] += 1
        if r == "sat":
            self.candidates.append({"label": label, "region": None, "inputs": self.input_model(m)})
            if self.ex.grid_budget > 0:
                self.ex.grid_budget -= 1
                r2, m2 = self._find_model([neg] + outside, grid=True)
                if m2 is not None:
                    self.candidates.append({"label": label, "region": None, "inputs": self.input_model(m2)})
            # the first model tends to sit ON a constraint boundary (a vertex), where float evaluation of a tolerance test can
            # fall on the other side; ask for models that differ from it by >= 1/1024 in one real input at a time
            env0 = self.input_model(m)
            for name, spec in list(self.inputs.items()):
                if self.ex.diverse_budget <= 0:
                    break
                if spec[0] != "real":
                    continue
                self.ex.diverse_budget -= 1
                v = env0[name]
                vq = z3.RealVal(str(Fraction(v["q"][0], v["q"][1]))) if isinstance(v, dict) else z3.RealVal(str(Fraction(v)))
                x = zvar(name)
                r3, m3 = self._find_model([neg] + outside + [z3.Or(x >= vq + z3.RealVal("1/1024"), x <= vq - z3.RealVal("1/1024"))])
                if r3 == "sat":
                    self.candidates.append({"label": label, "region": None, "inputs": self.input_model(m3)})
        elif r == "unknown":
            self.unknown += 1
        for rid, t in self.regions:
            if not self._explains(rid, label):
                continue
            r, m = self._find_model([neg, t])
            if r == "sat":
                self.candidates.append({"label": label, "region": rid, "inputs": self.input_model(m)})
            elif r == "unknown":
                self.unknown += 1
        if pos is None:
            return      # constant-false obligation: recorded above, nothing to assume
        ex.assume(pos)

    def _explains(self, rid, label):
        """is `rid` the region of a recorded finding that explains a failure of obligation `label`?"""
        if rid not in self.known_regions:
            return False
        labs = self.known_regions[rid]
        return labs is None or any(x in label for x in labs)

    def fail(self, label):
        """The code under test raised / misbehaved on this (feasible) path."""
        self.require(False, label)

    def final_inputs(self):
        r, m = self._find_model([])
        if m is None:
            return None
        return self.input_model(m)


def cvc5_decide(solver, extra, tlimit_ms=20000):
    """Re-decide (assertions of `solver`) + extra with cvc5 through SMT-LIB2 text."""
    try:
        import cvc5
        solver.push()
        try:
            for c in extra:
                solver.add(c)
            text = solver.to_smt2()
        finally:
            solver.pop()
        text = "(set-logic ALL)\n" + text
        tm = cvc5.TermManager()
        slv = cvc5.Solver(tm)
        slv.setOption("tlimit-per", str(tlimit_ms))
        parser = cvc5.InputParser(slv)
        parser.setStringInput(cvc5.InputLanguage.SMT_LIB_2_6, text, "query")
        sm = parser.getSymbolManager()
        out = None
        while True:
            cmd = parser.nextCommand()
            if cmd.isNull():
                break
            res = cmd.invoke(slv, sm)
            if "check-sat" in str(cmd):
                out = str(res).strip()
        return out if out in ("sat", "unsat") else "unknown"
    except Exception as e:      # parse problems etc.: inconclusive for the cross-check, never a verdict
        return "error:" + type(e).__name__


def ex_timeout(ex):
    return getattr(ex, "_timeout_ms", 20000)


class LiftCtx:
    """Engine run on constant SymReals (shims installed): validates the shims against floats."""

    mode = "lift"
    symbolic = False

    def __init__(self, env):
        self.env = env
        self.notes = {}
        self.failed = []
        self.region_hits = set()
        self.tags = set()

    def real(self, name, lo=None, hi=None, grid=None):
        return lift(self.env[name])

    def const(self, v):
        return lift(v)

    def choice(self, name, n):
        return int(self.env[name])

    def assume(self, cond):
        if not bool(cond):
            raise AssumptionFailed(str(cond))

    def region(self, rid, cond):
        if bool(cond):
            self.region_hits.add(rid)

    def tag(self, t):
        self.tags.add(t)

    def note(self, key, value):
        self.notes[key] = value

    def exact(self, x):
        return x

    def holds(self, cond):
        return bool(cond)

    def ite(self, cond, a, b):
        return a if bool(cond) else b

    def require(self, cond, label, robust=None):
        if not bool(cond):
            self.failed.append(label)

    def fail(self, label):
        self.failed.append(label)


class ConcreteCtx(LiftCtx):
    """Plain floats on the unmodified modules."""

    mode = "concrete"

    def real(self, name, lo=None, hi=None, grid=None):
        return float(self.env[name])

    def const(self, v):
        return float(v)

    def exact(self, x):
        if isinstance(x, (float, int, _np.floating, _np.integer)):
            return Fraction(float(x))
        return x


def to_float(v):
    """Note value -> float (constant SymReal, Fraction, float)."""
    if isinstance(v, SymReal):
        return float(v.const_value())
    if isinstance(v, Fraction):
        return float(v)
    if v is None:
        return None
    return float(v)
