#!/bin/sh
# Build the check environment offline: an overlay venv on top of /venv (which holds
# OpenPinch's own dependencies) plus z3 / cvc5 / crosshair from the local wheelhouse.
set -e
cd "$(dirname "$0")"
if [ ! -x .venv/bin/python ] || ! .venv/bin/python -c "import z3, crosshair, numpy" 2>/dev/null; then
  rm -rf .venv
  /venv/bin/python -m venv .venv
  SP=$(.venv/bin/python -c "import sysconfig; print(sysconfig.get_paths()['purelib'])")
  echo "import site; site.addsitedir('/venv/lib/python3.12/site-packages')" > "$SP/_overlay.pth"
  PIP_NO_INDEX=1 .venv/bin/pip install -q --no-index --find-links /opt/veriftools/wheels z3-solver cvc5 crosshair-tool
fi
.venv/bin/python -c "import z3, crosshair, numpy, sys; sys.path.insert(0,'/repo'); import OpenPinch; print('setup ok', z3.get_version_string())"
mkdir -p evidence/replays
