#!/usr/bin/env python
"""CLI: run.py C08 --tier quick|thorough   |   run.py --replay evidence/replays/<file>.json"""
import argparse
import os
import sys

VERIF = os.path.dirname(os.path.abspath(__file__))
sys.path.insert(0, VERIF)
os.environ.setdefault("OPENPINCH_VERIF", "1")


def main():
    ap = argparse.ArgumentParser()
    ap.add_argument("prop", nargs="?")
    ap.add_argument("--tier", default=os.environ.get("VERIF_TIER", "quick"), choices=["quick", "thorough"])
    ap.add_argument("--replay")
    ap.add_argument("--family")
    ap.add_argument("--jobs", type=int)
    a = ap.parse_args()
    from symx import runner
    if a.replay:
        sys.exit(runner.replay_file(a.replay))
    seed = int(os.environ.get("VERIF_SEED", "0") or 0)
    sys.exit(runner.run_property(a.prop.upper(), a.tier, seed, jobs=a.jobs, only_family=a.family))


if __name__ == "__main__":
    main()
